"""Import everything py-pde loads lazily, in the process the workers are forked from.

Only modules are imported and the (empty) backend singletons instantiated; no grid, field,
operator, equation or tracker is created, so every forked child still starts from the state
"py-pde imported, nothing computed"."""

import importlib


def prewarm_pde():
    import pde  # noqa: F401
    from pde.backends import get_backend

    for b in ("numpy", "numba", "scipy"):
        try:
            get_backend(b)
        except Exception:  # noqa: BLE001
            pass
    for m in ("pde.backends.numba._solvers", "pde.backends.numba._boundaries", "pde.backends.numba.operators",
              "pde.backends.scipy.operators", "pde.tools.mpi", "tqdm.auto", "multiprocessing.synchronize",
              "pde.trackers.interrupts", "pde.trackers.trackers", "pde.solvers.controller", "pde.storage.memory",
              "scipy.sparse.linalg", "scipy.interpolate", "sympy"):
        try:
            importlib.import_module(m)
        except Exception:  # noqa: BLE001
            pass
