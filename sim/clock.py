"""Simulated wall clock (seam S3 of DESIGN.md).

The clock is a pure function of the number of reads: every read advances simulated wall
time by an amount drawn from a PRNG seeded by the plan.  It stands in for the module
`time` in the three py-pde modules that read a clock and for
`Controller._get_current_time`.
"""

from __future__ import annotations

import importlib
import random
import time as _real_time

PROFILES = ("steady", "stall", "jump", "slow", "mixed")


class StepCapExceeded(RuntimeError):
    """The system under simulation read the clock more often than any terminating run of the
    plan can (bounded liveness: the run loop makes no progress)."""


class SimClock:
    def __init__(self, spec: dict):
        self.max_reads = int(spec.get("max_reads", 0)) or None
        self.profile = spec.get("profile", "steady")
        self._rng = random.Random(int(spec.get("seed", 0)))
        self.now = 1000.0
        self.reads = 0
        self._stall_left = 0
        self.stats = {"reads": 0, "zero_advance_reads": 0, "jumps": 0, "slow_reads": 0}

    # -- the only source of simulated wall time
    def _advance(self) -> float:
        self.reads += 1
        self.stats["reads"] += 1
        if self.max_reads is not None and self.reads > self.max_reads:
            raise StepCapExceeded(f"more than {self.max_reads} clock reads")
        p = self.profile
        r = self._rng
        if p == "mixed":
            p = ("steady", "stall", "jump", "slow")[r.randrange(4)]
        if p == "steady":
            inc = 1e-5 * (1 + 99 * r.random())
        elif p == "stall":
            if self._stall_left > 0:
                self._stall_left -= 1
                inc = 0.0
            elif r.random() < 0.35:
                self._stall_left = r.randint(1, 6)
                inc = 0.0
            else:
                inc = 0.7 * r.random()
        elif p == "jump":
            if r.random() < 0.06:
                inc = 3600.0 * r.randint(1, 50)
                self.stats["jumps"] += 1
            else:
                inc = 1e-4
        elif p == "slow":
            inc = 0.5 + 5 * r.random()
            self.stats["slow_reads"] += 1
        else:
            inc = 1e-4
        if inc == 0.0:
            self.stats["zero_advance_reads"] += 1
        self.now += inc
        return self.now

    def monotonic(self) -> float:
        return self._advance()

    def time(self) -> float:
        return self._advance()

    def process_time(self) -> float:
        return self._advance()

    def perf_counter(self) -> float:
        return self._advance()

    def sleep(self, seconds: float) -> None:
        self.now += max(0.0, float(seconds))

    def __getattr__(self, name):  # everything else (strftime, ...) is not a clock read
        return getattr(_real_time, name)


_PATCHED_MODULES = ("pde.trackers.interrupts", "pde.trackers.trackers", "pde.solvers.controller")


def install(clock: SimClock) -> None:
    """Put the simulated clock behind every clock read of py-pde's run loop."""
    import pde  # noqa: F401

    for name in _PATCHED_MODULES:
        mod = importlib.import_module(name)
        mod.time = clock
    ctrl = importlib.import_module("pde.solvers.controller")
    ctrl.Controller._get_current_time = staticmethod(clock.process_time)


def uninstall() -> None:
    for name in _PATCHED_MODULES:
        mod = importlib.import_module(name)
        mod.time = _real_time
    ctrl = importlib.import_module("pde.solvers.controller")
    ctrl.Controller._get_current_time = staticmethod(_real_time.process_time)
