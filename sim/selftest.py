"""Self-tests of the simulator: determinism (does a seed replay?) and sensitivity (does a
broken py-pde make the check fail?).  DESIGN.md section 3.7."""

from __future__ import annotations

import glob
import json
import os
import shutil
import subprocess
import sys
import tempfile
import time

from . import core

SCRATCH_PARENT = os.environ.get("VERIF_SCRATCH", "/var/tmp")


def _digests(prop, tier, n, hashseed, workers, seed):
    env = dict(os.environ)
    env.update({"PYTHONHASHSEED": str(hashseed), "VERIF_REEXEC": "1", "VERIF_WORKERS": str(workers),
                "VERIF_SEED": str(seed)})
    p = subprocess.run([sys.executable, os.path.join(core.ROOT, "check"), prop, "--tier", tier, "--digests", str(n)],
                       capture_output=True, env=env, cwd=core.ROOT, timeout=3600)
    err = p.stderr.decode(errors="replace")
    for line in p.stdout.decode(errors="replace").splitlines()[::-1]:
        if line.startswith("DIGESTS "):
            return {int(k): v for k, v in json.loads(line[8:]).items()}, err
    raise RuntimeError("no digests: " + err[-2000:])


def determinism(engine, tier: str) -> int:
    prop = engine.PROPERTY
    n = int(os.environ.get("VERIF_DET_RUNS", engine.TIERS[tier].get("det_runs", 200)))
    seed = core.root_seed()
    t0 = time.monotonic()
    a, ea = _digests(prop, tier, n, 1, 1, seed)
    b, eb = _digests(prop, tier, n, 2, 16, seed)
    c, ec = _digests(prop, tier, n, 3, 5, seed)
    bad = [i for i in range(n) if not (a.get(i) == b.get(i) == c.get(i)) or a.get(i) is None]
    distinct = len(set(a.values()))
    out = {"property": prop, "tier": tier, "seed": seed, "runs": n, "configs": [
        {"PYTHONHASHSEED": 1, "workers": 1}, {"PYTHONHASHSEED": 2, "workers": 16}, {"PYTHONHASHSEED": 3, "workers": 5}],
        "mismatching_runs": bad, "distinct_digests": distinct, "wall_s": round(time.monotonic() - t0, 1)}
    os.makedirs(os.path.join(core.ROOT, "selftest"), exist_ok=True)
    with open(os.path.join(core.ROOT, "selftest", f"determinism-{prop}.json"), "w") as f:
        json.dump(out, f, indent=1)
    print(json.dumps(out))
    if bad:
        print(f"HARNESS-ERROR property={prop} {len(bad)} of {n} runs are not deterministic: {bad[:20]}")
        return 2
    print(f"[{prop}] determinism: {n} runs x 3 fresh interpreters (hash seeds 1/2/3, workers 1/16/5) identical; "
          f"{distinct} distinct digests")
    return 0


def _mutants_for(prop: str):
    out = []
    for path in sorted(glob.glob(os.path.join(core.ROOT, "mutants", f"{prop}-*.diff"))):
        out.append((os.path.basename(path)[:-5], path))
    for meta in sorted(glob.glob(os.path.join(core.ROOT, "seeded", "*", "meta.json"))):
        try:
            m = json.load(open(meta))
        except Exception:
            continue
        props = m.get("property") if isinstance(m.get("property"), list) else [m.get("property")]
        if prop in props:
            d = os.path.dirname(meta)
            # patch_current.diff: the same change carried over to /repo's current HEAD when a later repair
            # touched the lines the author's patch.diff was written against
            cur = os.path.join(d, "patch_current.diff")
            out.append(("seeded/" + os.path.basename(d), cur if os.path.exists(cur) else os.path.join(d, "patch.diff")))
    return out


def make_scratch_repo(patch_path: str | None):
    """Copy of /repo's package (outside /repo and /verif) with an optional patch applied."""
    scratch = tempfile.mkdtemp(prefix="verif-mut-", dir=SCRATCH_PARENT)
    src = os.environ.get("VERIF_REPO_SRC", "/repo")
    shutil.copytree(os.path.join(src, "pde"), os.path.join(scratch, "pde"),
                    ignore=shutil.ignore_patterns("__pycache__", "*.pyc"))
    if patch_path:
        p = subprocess.run(["patch", "-p1", "--no-backup-if-mismatch", "-s", "-i", patch_path], cwd=scratch,
                           capture_output=True)
        if p.returncode != 0:
            shutil.rmtree(scratch, ignore_errors=True)
            raise RuntimeError(f"patch {patch_path} does not apply: {p.stdout.decode()} {p.stderr.decode()}")
    return scratch


def sensitivity(engine, only: str | None = None) -> int:
    prop = engine.PROPERTY
    rows = []
    evdir = tempfile.mkdtemp(prefix="verif-ev-", dir=SCRATCH_PARENT)
    try:
        for name, patch in _mutants_for(prop):
            if only and only not in name:
                continue
            t0 = time.monotonic()
            try:
                scratch = make_scratch_repo(patch)
            except RuntimeError as e:
                rows.append({"mutant": name, "caught": False, "exit": None, "note": str(e)[:300]})
                continue
            try:
                env = dict(os.environ)
                env.update({"VERIF_REPO": scratch, "VERIF_NO_DET": "1", "VERIF_EVIDENCE_DIR": evdir,
                            "VERIF_MAX_REPORTS": "1", "VERIF_SHRINK_S": os.environ.get("VERIF_SHRINK_S", "20"),
                            "VERIF_REEXEC": "0"})
                env.pop("PYTHONHASHSEED", None)
                p = subprocess.run([os.path.join(core.ROOT, "check"), prop, "--tier", "quick"], capture_output=True,
                                   env=env, cwd=core.ROOT, timeout=3600)
                out = p.stdout.decode(errors="replace")
                vio = [l for l in out.splitlines() if l.startswith("VIOLATION")]
                cls = [l.strip() for l in out.splitlines() if l.strip().startswith("class=")]
                rows.append({"mutant": name, "caught": p.returncode == 1 and bool(vio), "exit": p.returncode,
                             "class": cls[0] if cls else "", "wall_s": round(time.monotonic() - t0, 1),
                             "tail": "" if p.returncode == 1 else out[-600:]})
            finally:
                shutil.rmtree(scratch, ignore_errors=True)
    finally:
        shutil.rmtree(evdir, ignore_errors=True)
    os.makedirs(os.path.join(core.ROOT, "selftest"), exist_ok=True)
    if not only:
        with open(os.path.join(core.ROOT, "selftest", f"sensitivity-{prop}.json"), "w") as f:
            json.dump({"property": prop, "results": rows}, f, indent=1)
    missed = [r for r in rows if not r["caught"]]
    for r in rows:
        print(f"  {'CAUGHT' if r['caught'] else 'MISSED'}  {r['mutant']:55s} exit={r['exit']} {r.get('class', '')} {r.get('wall_s', '')}s")
        if not r["caught"]:
            print("      " + (r.get("note") or r.get("tail", ""))[-500:].replace("\n", "\n      "))
    print(f"[{prop}] sensitivity: {len(rows) - len(missed)}/{len(rows)} mutants caught")
    return 0 if not missed else 1
