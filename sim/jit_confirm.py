"""JIT-mode confirmation for C03 (thorough tier).  NOT simulation: the real compiled parallel=True
kernels are run with real numba threads whose schedule nobody controls.  It closes, as far as
observation can, the gap the simulation leaves open: numba's own parfor lowering.

Run in its own interpreter WITHOUT NUMBA_DISABLE_JIT.  Prints one line `JITCONFIRM <json>`.
"""

from __future__ import annotations

import json
import os
import sys
import time


def cases():
    out = []
    grids = [
        ("cart2", {"cls": "CartesianGrid", "bounds": [[0, 3.0], [-1, 1.5]], "shape": [6, 5], "periodic": [False, True]}),
        ("cart3", {"cls": "CartesianGrid", "bounds": [[0, 2.0], [0, 1.0], [-1, 1.0]], "shape": [4, 3, 5], "periodic": [True, False, False]}),
        ("cyl", {"cls": "CylindricalSymGrid", "radius": [0.5, 2.0], "bounds_z": [-1, 1.0], "shape": [5, 4], "periodic": [False, False]}),
    ]
    ops = {
        "cart2": [("laplace", {}), ("laplace", {"corner_weight": 1 / 3}), ("gradient", {}), ("gradient", {"method": "forward"}),
                  ("gradient_squared", {}), ("gradient_squared", {"central": False}), ("divergence", {}), ("divergence", {"method": "backward"}),
                  ("vector_gradient", {}), ("vector_laplace", {}), ("tensor_divergence", {})],
        "cart3": [("laplace", {}), ("gradient", {}), ("gradient_squared", {}), ("gradient_squared", {"central": False}), ("divergence", {}),
                  ("vector_laplace", {})],
        "cyl": [("laplace", {}), ("gradient", {}), ("gradient_squared", {}), ("gradient_squared", {"central": False}), ("divergence", {}),
                ("vector_gradient", {}), ("vector_laplace", {}), ("tensor_divergence", {})],
    }
    for gname, gspec in grids:
        for name, kw in ops[gname]:
            out.append((gname, gspec, name, kw))
    return out


def run_case(args):
    gname, gspec, name, kw, seed = args
    import numba as nb
    import numpy as np

    import pde
    from checks.c03 import RANK_IN, _build_grid
    from pde.backends import get_backend

    t0 = time.time()
    pde.config["backend.numba.multithreading"] = "always"
    grid = _build_grid(gspec)
    backend = get_backend("numba")
    rank_in = RANK_IN[name]
    rng = np.random.default_rng(seed)
    shape_full = (grid.dim,) * rank_in + tuple(grid._shape_full)
    full = rng.uniform(-1, 1, size=shape_full)
    info = backend.get_operator_info(grid, name)
    out_shape = (grid.dim,) * info.rank_out + tuple(grid.shape)
    pde.config["backend.numba.multithreading_threshold"] = 10 ** 9
    op_ser = backend.make_operator_no_bc(grid, name, **kw)
    ref = np.full(out_shape, np.nan)
    op_ser(full.copy(), ref)
    pde.config["backend.numba.multithreading_threshold"] = 1
    op_par = backend.make_operator_no_bc(grid, name, **kw)
    res = {"case": f"{gname}:{name}{kw}", "threads": [], "ok": True, "maxdiff": 0.0}
    for n in (1, 2, 5, min(16, nb.config.NUMBA_NUM_THREADS)):
        if n > nb.config.NUMBA_NUM_THREADS:
            continue
        nb.set_num_threads(n)
        for rep in range(3):
            out = np.full(out_shape, np.nan)
            op_par(full.copy(), out)
            ok = bool(np.allclose(out, ref, rtol=1e-12, atol=1e-13, equal_nan=True))
            d = float(np.nanmax(np.abs(out - ref)))
            res["maxdiff"] = max(res["maxdiff"], d)
            if not ok:
                res["ok"] = False
        res["threads"].append(n)
    res["wall_s"] = round(time.time() - t0, 1)
    return res


def main():
    sys.path[:0] = [os.environ.get("VERIF_REPO", "/repo"), os.path.dirname(os.path.dirname(os.path.abspath(__file__)))]
    import logging
    import warnings

    logging.disable(logging.WARNING)
    warnings.filterwarnings("ignore")
    import multiprocessing as mp

    seed = int(os.environ.get("VERIF_SEED", "0"))
    jobs = [(g, gs, n, kw, seed + i) for i, (g, gs, n, kw) in enumerate(cases())]
    with mp.get_context("spawn").Pool(min(8, len(jobs))) as pool:
        results = pool.map(run_case, jobs)
    print("JITCONFIRM " + json.dumps(results))


if __name__ == "__main__":
    main()
