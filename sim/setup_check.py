"""MANIFEST.setup_cmd: nothing is built (py-pde is pure Python and imported from the
working tree); this verifies the offline environment the checks rely on."""
import importlib
import os
import sys

ROOT = os.path.dirname(os.path.dirname(os.path.abspath(__file__)))
bad = []
for mod in ("numpy", "scipy", "sympy", "numba", "tqdm"):
    try:
        importlib.import_module(mod)
    except Exception as e:  # noqa: BLE001
        bad.append(f"{mod}: {e}")
for mod in ("mpi4py", "numba_mpi"):
    try:
        importlib.import_module(mod)
        bad.append(f"{mod} is really installed: the simulated transport of C17 would shadow it")
    except ImportError:
        pass
repo = os.environ.get("VERIF_REPO", "/repo")
if not os.path.isfile(os.path.join(repo, "pde", "__init__.py")):
    bad.append(f"no py-pde working tree at {repo}")
os.makedirs(os.path.join(ROOT, "evidence"), exist_ok=True)
os.makedirs(os.path.join(ROOT, "replays"), exist_ok=True)
if not os.access(os.path.join(ROOT, "check"), os.X_OK):
    os.chmod(os.path.join(ROOT, "check"), 0o755)
if bad:
    print("SETUP FAILED:\n  " + "\n  ".join(bad))
    sys.exit(1)
print("setup ok: python", sys.version.split()[0], "repo", repo)
