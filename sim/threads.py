"""prange-sim: numba `prange` kernels of py-pde executed by simulated worker threads under a
seeded scheduler (seam S5 of DESIGN.md).

With NUMBA_DISABLE_JIT=1 a kernel is a plain Python closure.  The name `jit` of py-pde's operator
modules is replaced by a wrapper that asks the real `jit` what it would do and, for kernels that
would be compiled with parallel=True, returns a *parallel region*: the kernel source is rewritten
so that the body of every `for i in nb.prange(...)` loop becomes a nested function - variables
assigned in the body are private to an iteration, everything else (arrays, closure cells, arrays
allocated before the loop) is shared, exactly numba's parfor semantics - and that body is executed
by W baton-passing Python threads.  `sys.settrace` opcode events at subscript loads/stores are the
pre-emption points; which worker proceeds at each of them is decided by one PRNG.
"""

from __future__ import annotations

import ast
import dis
import hashlib
import importlib
import inspect
import random
import sys
import textwrap
import threading

OPERATOR_MODULES = ("pde.backends.numba.operators.cartesian", "pde.backends.numba.operators.cylindrical_sym",
                    "pde.backends.numba.operators.polar_sym", "pde.backends.numba.operators.spherical_sym",
                    "pde.backends.numba.operators.common")
PREEMPT_OPS = {dis.opmap[n] for n in ("BINARY_SUBSCR", "STORE_SUBSCR", "BINARY_SLICE", "STORE_SLICE") if n in dis.opmap}
STORE_OPS = {dis.opmap[n] for n in ("STORE_SUBSCR", "STORE_SLICE") if n in dis.opmap}
SIM_FILENAME_PREFIX = "<prange-sim:"

ACTIVE = None  # the Scheduler of the run in progress (None: every region runs serially)
STATS = {"regions_made": 0, "kernels_unsupported": 0, "kernels_transformed": 0}
_REAL_JIT = {}
KERNELS = {}  # name -> info about transformed kernels (for evidence)


class SimError(RuntimeError):
    """The simulator itself failed (never a verdict about py-pde)."""


# ======================================================================================
# kernel transformation
# ======================================================================================


def _is_prange_call(node) -> bool:
    if not isinstance(node, ast.Call):
        return False
    f = node.func
    return (isinstance(f, ast.Attribute) and f.attr == "prange") or (isinstance(f, ast.Name) and f.id == "prange")


def _assigned_names(nodes) -> set:
    out = set()
    for n in nodes:
        for sub in ast.walk(n):
            if isinstance(sub, (ast.Assign, ast.AnnAssign, ast.AugAssign)):
                targets = sub.targets if isinstance(sub, ast.Assign) else [sub.target]
                for t in targets:
                    for x in ast.walk(t):
                        if isinstance(x, ast.Name) and isinstance(x.ctx, ast.Store):
                            out.add(x.id)
            elif isinstance(sub, ast.For):
                for x in ast.walk(sub.target):
                    if isinstance(x, ast.Name):
                        out.add(x.id)
            elif isinstance(sub, (ast.NamedExpr,)):
                out.add(sub.target.id)
    return out


def _first_use_is_read(body, name) -> bool:
    """True if `name` may be read in `body` before it is assigned there (loop-carried: a reduction)."""
    assigned = False

    class V(ast.NodeVisitor):
        carried = False

        def visit_AugAssign(self, node):
            nonlocal assigned
            self.visit(node.value)
            if isinstance(node.target, ast.Name) and node.target.id == name and not assigned:
                self.carried = True
            self.generic_visit(node.target)

        def visit_Assign(self, node):
            nonlocal assigned
            self.visit(node.value)
            for t in node.targets:
                for x in ast.walk(t):
                    if isinstance(x, ast.Name) and x.id == name and isinstance(x.ctx, ast.Store):
                        assigned = True
                    elif not isinstance(x, ast.Name):
                        pass
            for t in node.targets:
                if not isinstance(t, ast.Name):
                    self.visit(t)

        def visit_For(self, node):
            nonlocal assigned
            self.visit(node.iter)
            for x in ast.walk(node.target):
                if isinstance(x, ast.Name) and x.id == name:
                    assigned = True
            for stmt in node.body + node.orelse:
                self.visit(stmt)

        def visit_Name(self, node):
            if node.id == name and isinstance(node.ctx, ast.Load) and not assigned:
                self.carried = True

    v = V()
    for stmt in body:
        v.visit(stmt)
    return v.carried


def transform_kernel(func):
    """Return (new function, info) with every top-level prange loop turned into a region call, or
    (None, reason) if the kernel uses something the emulation does not model."""
    try:
        src = textwrap.dedent(inspect.getsource(func))
    except (OSError, TypeError) as err:
        return None, f"no source: {err}"
    tree = ast.parse(src)
    fdef = tree.body[0]
    if not isinstance(fdef, ast.FunctionDef):
        return None, "not a plain function"
    fdef.decorator_list = []
    fdef.returns = None
    for a in fdef.args.args + fdef.args.kwonlyargs:
        a.annotation = None
    loops = [n for n in ast.walk(fdef) if isinstance(n, ast.For) and _is_prange_call(n.iter)]
    if not loops:
        return None, "no prange loop"
    top = [n for n in fdef.body if n in loops]
    if len(top) != len(loops):
        return None, "prange loop is not a top-level statement of the kernel"
    outside_assigned = _assigned_names([n for n in fdef.body if n not in loops]) | {a.arg for a in fdef.args.args}
    new_body = []
    k = 0
    for stmt in fdef.body:
        if stmt not in loops:
            new_body.append(stmt)
            continue
        if not isinstance(stmt.target, ast.Name) or stmt.orelse:
            return None, "unsupported prange loop form"
        private = _assigned_names(stmt.body)
        clash = (private & outside_assigned) - {stmt.target.id}
        if clash:
            return None, f"names {sorted(clash)} are assigned both inside and outside the prange loop"
        for name in private:
            if _first_use_is_read(stmt.body, name):
                return None, f"loop-carried variable `{name}` (a numba reduction; not modelled)"
        after = fdef.body[fdef.body.index(stmt) + 1:]
        used_after = {x.id for n in after for x in ast.walk(n) if isinstance(x, ast.Name)}
        if private & used_after:
            return None, f"names {sorted(private & used_after)} assigned in the loop are used after it"
        bname = f"__prange_body_{k}"
        body_def = ast.FunctionDef(name=bname, args=ast.arguments(posonlyargs=[], args=[ast.arg(arg=stmt.target.id)],
                                                                 kwonlyargs=[], kw_defaults=[], defaults=[]),
                                   body=stmt.body, decorator_list=[], returns=None, type_params=[])
        call = ast.Expr(value=ast.Call(func=ast.Name(id="__run_prange", ctx=ast.Load()),
                                       args=[ast.Name(id=bname, ctx=ast.Load()), *stmt.iter.args], keywords=[]))
        new_body.extend([body_def, call])
        k += 1
    fdef.body = new_body
    freevars = list(func.__code__.co_freevars)
    factory = ast.FunctionDef(
        name="__factory", args=ast.arguments(posonlyargs=[], args=[ast.arg(arg=v) for v in [*freevars, "__run_prange"]],
                                             kwonlyargs=[], kw_defaults=[], defaults=[]),
        body=[fdef, ast.Return(value=ast.Name(id=fdef.name, ctx=ast.Load()))], decorator_list=[], returns=None, type_params=[])
    mod = ast.Module(body=[factory], type_ignores=[])
    ast.fix_missing_locations(mod)
    fname = f"{SIM_FILENAME_PREFIX}{func.__module__.rsplit('.', 1)[-1]}.{func.__qualname__}>"
    ns = dict(func.__globals__)
    exec(compile(mod, fname, "exec"), ns)  # noqa: S102
    cells = [c.cell_contents for c in (func.__closure__ or ())]
    new = ns["__factory"](*cells, run_prange)
    new.__wrapped_kernel__ = func
    return new, {"loops": k, "file": fname}


# ======================================================================================
# regions and the scheduler
# ======================================================================================


def Region(func, sim_func, info):
    """What replaces a kernel that numba would compile with parallel=True (a plain function, because
    py-pde hands kernels on to numba.jit, which insists on functions)."""

    def region(*args, **kwargs):
        sched = ACTIVE
        if sched is None or sim_func is None or sched.mode == "original":
            return func(*args, **kwargs)
        return sim_func(*args, **kwargs)

    region.__name__ = getattr(func, "__name__", "kernel")
    region.__qualname__ = getattr(func, "__qualname__", region.__name__)
    region.__doc__ = func.__doc__
    region.__prange_sim__ = info
    return region


def run_prange(body, *range_args):
    iters = list(range(*[int(a) for a in range_args]))
    sched = ACTIVE
    if sched is None or sched.mode != "parallel" or sched.in_region:
        for i in iters:
            body(i)
        return
    sched.run_region(body, iters)


class _Worker:
    __slots__ = ("wid", "sem", "done", "exc", "thread", "reads_since_store", "priority", "steps")

    def __init__(self, wid):
        self.wid = wid
        self.sem = threading.Semaphore(0)
        self.done = False
        self.exc = None
        self.thread = None
        self.reads_since_store = 0
        self.priority = 0.0
        self.steps = 0


class Scheduler:
    """One per run.  mode: 'parallel' (simulated threads), 'serial' (transformed kernels, one thread),
    'original' (untransformed kernels)."""

    WAIT_S = 30.0

    def __init__(self, spec: dict, mode: str = "parallel"):
        self.mode = mode
        self.spec = spec
        self.rng = random.Random(int(spec.get("seed", 0)))
        self.W = int(spec.get("workers", 3))
        self.partition = spec.get("partition", "static")
        self.strategy = spec.get("strategy", "random")
        self.p_switch = float(spec.get("p_switch", 0.3))
        self.pct_depth = int(spec.get("pct_depth", 2))
        self.chunk = max(1, int(spec.get("chunk", 1)))
        self.max_decisions = int(spec.get("max_decisions", 4000))
        self.in_region = False
        self.trace = hashlib.sha256()
        self.stats = {"regions": 0, "preemption_points": 0, "switches": 0, "switch_between_read_and_write": 0,
                      "decisions_capped": 0, "workers_total": 0, "idle_workers": 0, "stalled_decisions": 0,
                      "dynamic_grabs": 0}
        self.region_sigs = []

    # ---- region execution -----------------------------------------------------------
    def run_region(self, body, iters):
        self.in_region = True
        self.stats["regions"] += 1
        W = self.W
        self.workers = [_Worker(w) for w in range(W)]
        self.stats["workers_total"] += W
        self.decisions = 0
        self.region_hash = hashlib.sha256()
        # partition of the iteration space
        n = len(iters)
        self.cursor = 0
        self.iters = iters
        if self.partition == "static":
            base, extra = divmod(n, W)
            shares, pos = [], 0
            for w in range(W):
                size = base + (1 if w < extra else 0)
                shares.append(iters[pos:pos + size])
                pos += size
        elif self.partition == "roundrobin":
            shares = [iters[w::W] for w in range(W)]
        elif self.partition == "reversed":
            base, extra = divmod(n, W)
            shares, pos = [], 0
            for w in range(W):
                size = base + (1 if w < extra else 0)
                shares.append(iters[pos:pos + size][::-1])
                pos += size
            shares = shares[::-1]
        else:  # dynamic: a shared cursor, chunks grabbed on demand
            shares = [None] * W
        self.stats["idle_workers"] += sum(1 for s in shares if s is not None and not s)
        # strategy state
        for wk in self.workers:
            wk.priority = self.rng.random()
        est = max(8, n * 12)
        self.pct_points = sorted(self.rng.randrange(est) for _ in range(self.pct_depth)) if self.strategy == "pct" else []
        self.stalled = self.rng.randrange(W) if self.strategy == "stall" else None
        self.stall_left = self.rng.randint(20, 400) if self.strategy == "stall" else 0
        self.main_sem = threading.Semaphore(0)
        self.current = None

        def target(wk: _Worker, share):
            wk.sem.acquire()
            sys.settrace(self._make_tracer(wk))
            try:
                if share is not None:
                    for i in share:
                        self._iteration_boundary(wk)
                        body(i)
                else:
                    while True:
                        self._iteration_boundary(wk)
                        lo = self.cursor
                        if lo >= n:
                            break
                        hi = min(n, lo + self.chunk)
                        self.cursor = hi
                        self.stats["dynamic_grabs"] += 1
                        self.region_hash.update(b"g%d:%d;" % (wk.wid, lo))
                        for i in iters[lo:hi]:
                            body(i)
            except BaseException as err:  # noqa: BLE001
                wk.exc = err
            finally:
                sys.settrace(None)
                wk.done = True
                self._handoff_after_done(wk)

        for wk, share in zip(self.workers, shares):
            wk.thread = threading.Thread(target=target, args=(wk, share), daemon=True)
            wk.thread.start()
        first = self._choose(None)
        self.current = first
        first.sem.release()
        if not self.main_sem.acquire(timeout=self.WAIT_S * 4):
            raise SimError("simulated parallel region did not finish (scheduler deadlock or hang)")
        for wk in self.workers:
            wk.thread.join(timeout=self.WAIT_S)
        self.in_region = False
        sig = self.region_hash.hexdigest()[:16]
        self.region_sigs.append(sig)
        self.trace.update(sig.encode())
        for wk in self.workers:
            if wk.exc is not None:
                raise wk.exc

    # ---- scheduling decisions (always executed by the one thread that holds the baton) --
    def _runnable(self):
        return [w for w in self.workers if not w.done]

    def _choose(self, cur):
        run = self._runnable()
        if not run:
            return None
        if self.stalled is not None and self.stall_left > 0:
            others = [w for w in run if w.wid != self.stalled]
            if others:
                self.stall_left -= 1
                self.stats["stalled_decisions"] += 1
                run = others
        if self.strategy == "pct":
            return max(run, key=lambda w: w.priority)
        if cur is not None and not cur.done and cur in run and self.strategy in ("random", "stall"):
            if self.rng.random() >= self.p_switch:
                return cur
            others = [w for w in run if w is not cur]
            return self.rng.choice(others) if others else cur
        return self.rng.choice(run)

    def _switch_to(self, cur: _Worker, nxt: _Worker):
        if nxt is cur or nxt is None:
            return
        self.stats["switches"] += 1
        if cur.reads_since_store > 0:
            self.stats["switch_between_read_and_write"] += 1
        self.region_hash.update(b"%d>%d@%d;" % (cur.wid, nxt.wid, cur.steps))
        self.current = nxt
        nxt.sem.release()
        if not cur.sem.acquire(timeout=self.WAIT_S):
            raise SimError("baton was not passed back")

    def _preempt(self, wk: _Worker, is_store: bool):
        self.stats["preemption_points"] += 1
        wk.steps += 1
        self.decisions += 1
        if self.decisions > self.max_decisions:
            self.stats["decisions_capped"] += 1
            return
        if self.strategy == "chunk":
            return  # this strategy switches at iteration boundaries only
        if self.strategy == "pct" and self.pct_points and self.decisions >= self.pct_points[0]:
            self.pct_points.pop(0)
            wk.priority = -self.rng.random()  # drop below everybody
        nxt = self._choose(wk)
        if is_store:
            self._switch_to(wk, nxt)
            wk.reads_since_store = 0
        else:
            self._switch_to(wk, nxt)
            wk.reads_since_store += 1

    def _iteration_boundary(self, wk: _Worker):
        wk.reads_since_store = 0
        if self.strategy == "chunk" or self.partition == "dynamic":
            self.decisions += 1
            run = self._runnable()
            nxt = self.rng.choice(run) if run else None
            self._switch_to(wk, nxt)

    def _handoff_after_done(self, wk: _Worker):
        run = self._runnable()
        if not run:
            self.main_sem.release()
            return
        nxt = self._choose(None)
        self.region_hash.update(b"%d.end>%d;" % (wk.wid, nxt.wid))
        self.current = nxt
        nxt.sem.release()

    def _make_tracer(self, wk: _Worker):
        sched = self

        def local(frame, event, arg):
            if event == "opcode":
                op = frame.f_code.co_code[frame.f_lasti]
                if op in PREEMPT_OPS:
                    sched._preempt(wk, op in STORE_OPS)
            return local

        def tracer(frame, event, arg):
            if event != "call":
                return None
            fn = frame.f_code.co_filename
            if fn.startswith(SIM_FILENAME_PREFIX) or "/backends/numba/operators/" in fn:
                frame.f_trace_opcodes = True
                return local
            return None

        return tracer

    def signature(self) -> str:
        return self.trace.hexdigest()[:16]


# ======================================================================================
# installing the seam
# ======================================================================================


def _make_sim_jit(real_jit):
    def sim_jit(*args, **kwargs):
        parallel = bool(kwargs.get("parallel", False))
        backend = kwargs.get("backend")

        def would_be_parallel():
            if not parallel:
                return False
            b = backend
            if b is None:
                from pde.backends import get_backend

                b = get_backend("numba")
            return bool(b.use_multithreading())

        def wrap(func, compiled):
            if not would_be_parallel():
                return compiled
            sim_func, info = transform_kernel(func)
            STATS["regions_made"] += 1
            name = f"{func.__module__.rsplit('.', 1)[-1]}.{func.__qualname__}"
            if sim_func is None:
                STATS["kernels_unsupported"] += 1
                KERNELS[name] = {"supported": False, "reason": info}
            else:
                STATS["kernels_transformed"] += 1
                KERNELS[name] = {"supported": True, **info}
            return Region(compiled, sim_func, info)

        if len(args) == 1 and not kwargs and callable(args[0]):
            return wrap(args[0], real_jit(args[0]))
        if args and callable(args[0]) and not isinstance(args[0], (tuple, str)):
            return wrap(args[0], real_jit(*args, **kwargs))
        deco = real_jit(*args, **kwargs)
        return lambda func: wrap(func, deco(func))

    return sim_jit


def install() -> None:
    for name in OPERATOR_MODULES:
        mod = importlib.import_module(name)
        if hasattr(mod, "jit") and name not in _REAL_JIT:
            _REAL_JIT[name] = mod.jit
            mod.jit = _make_sim_jit(mod.jit)


def uninstall() -> None:
    for name, real in _REAL_JIT.items():
        importlib.import_module(name).jit = real
    _REAL_JIT.clear()
