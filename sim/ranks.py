"""mpi-sim: py-pde's MPI code path run by simulated ranks (seam S6 of DESIGN.md).

Every rank is a process forked from the plan child (which has imported pde with the fake
`mpi4py`/`numba_mpi` first on sys.path).  Every transport call of a rank is a request on a pipe
to the simulator in the parent; the rank blocks until the simulator grants it.  Exactly one rank
runs at any time, so the global order of events is the seeded scheduler's choice and a run is
exactly repeatable.

Transport model = what MPI guarantees: reliable, eager sends, non-overtaking per
(source, dest, tag).  The scheduler decides who runs next, after how many scheduler steps each
message becomes deliverable (delay, hence cross-channel reordering) and which rank is stalled.
Loss, duplication and rank crashes are not legal MPI behaviour and are not injected.
"""

from __future__ import annotations

import hashlib
import os
import pickle
import random
import select
import signal
import struct
import sys
import traceback


class SimError(RuntimeError):
    """The simulator itself failed (never a verdict about py-pde)."""


# ======================================================================================
# rank side
# ======================================================================================


def _write_msg(fd, obj):
    data = pickle.dumps(obj, protocol=pickle.HIGHEST_PROTOCOL)
    os.write(fd, struct.pack("<I", len(data)))
    view = memoryview(data)
    while view:
        n = os.write(fd, view)
        view = view[n:]


def _read_exact(fd, n):
    chunks = []
    while n:
        b = os.read(fd, n)
        if not b:
            raise EOFError
        chunks.append(b)
        n -= len(b)
    return b"".join(chunks)


def _read_msg(fd):
    (n,) = struct.unpack("<I", _read_exact(fd, 4))
    return pickle.loads(_read_exact(fd, n))


class RankTransport:
    """Installed as COMM_WORLD._transport in a rank process."""

    def __init__(self, rank, req_fd, rep_fd):
        self.rank, self.req_fd, self.rep_fd = rank, req_fd, rep_fd

    def _call(self, *request):
        _write_msg(self.req_fd, request)
        return _read_msg(self.rep_fd)

    def start(self):
        self._call("start")

    def send(self, payload: bytes, dest: int, tag: int):
        self._call("send", dest, tag, payload)

    def recv(self, source: int, tag: int) -> bytes:
        return self._call("recv", source, tag)

    def abort(self, code: int, info=None):
        _write_msg(self.req_fd, ("abort", info or {"type": "Abort", "msg": f"Abort({code})", "tb": ""}))

    def finish(self, kind, value):
        _write_msg(self.req_fd, (kind, value))


def _rank_main(rank, size, req_fd, rep_fd, program, args):
    """Body of a rank process (after fork)."""
    import importlib

    try:
        signal.signal(signal.SIGALRM, signal.SIG_DFL)
        signal.alarm(300)
        # py-pde's mpi_excepthook prints the traceback of a failing rank; the simulator reports it instead
        devnull = os.open(os.devnull, os.O_WRONLY)
        os.dup2(devnull, 2)
        MPI = importlib.import_module("mpi4py.MPI")
        tr = RankTransport(rank, req_fd, rep_fd)
        MPI.COMM_WORLD.size, MPI.COMM_WORLD.rank, MPI.COMM_WORLD._transport = size, rank, tr
        mpi = importlib.import_module("pde.tools.mpi")
        mpi.size, mpi.rank, mpi.parallel_run, mpi.is_main, mpi.initialized = size, rank, size > 1, rank == 0, True
        tr.start()
        try:
            result = program(rank, size, args)
        except SystemExit:
            return  # COMM_WORLD.Abort() already told the simulator
        except BaseException as err:  # noqa: BLE001
            tr.finish("exc", {"type": type(err).__name__, "msg": str(err)[:500], "tb": traceback.format_exc()[-1500:]})
            return
        tr.finish("done", result)
    finally:
        try:
            sys.stdout.flush()
            sys.stderr.flush()
        finally:
            os._exit(0)


# ======================================================================================
# simulator side
# ======================================================================================


class Simulator:
    def __init__(self, size: int, spec: dict):
        self.size = size
        self.rng = random.Random(int(spec.get("seed", 0)))
        self.p_delay = float(spec.get("p_delay", 0.3))
        self.max_delay = int(spec.get("max_delay", 6))
        self.p_stall = float(spec.get("p_stall", 0.1))
        self.max_stall = int(spec.get("max_stall", 12))
        self.policy = spec.get("policy", "random")  # random | lowest | highest | roundrobin
        self.max_steps = int(spec.get("max_steps", 20000))
        self.step = 0
        self.inflight = {}  # (src, dst, tag) -> list of (deliver_at, payload)
        self.parked = {}  # rank -> request
        self.finished = {}  # rank -> ("done"|"exc"|"abort", value)
        self.stalled_until = {}
        self.stats = {"messages": 0, "bytes": 0, "delayed_messages": 0, "stalls": 0, "stall_after_send_before_recv": 0,
                      "recv_blocked_on_undelivered": 0, "reordered_deliveries": 0, "decisions": 0, "steps_waiting": 0,
                      "max_inflight": 0, "collective_messages": 0}
        self.trace = hashlib.sha256()
        self.events = []
        self.last_was_send = {}
        self.send_seq = 0
        self.delivered_seq = {}  # dst -> highest global send sequence delivered so far (reordering probe)

    # ---- process management
    def launch(self, program, args):
        self.pipes = {}
        self.pids = {}
        for r in range(self.size):
            req_r, req_w = os.pipe()
            rep_r, rep_w = os.pipe()
            pid = os.fork()
            if pid == 0:
                os.close(req_r)
                os.close(rep_w)
                for other in self.pipes.values():
                    os.close(other[0])
                    os.close(other[1])
                _rank_main(r, self.size, req_w, rep_r, program, args)
            os.close(req_w)
            os.close(rep_r)
            self.pipes[r] = (req_r, rep_w)
            self.pids[r] = pid
        # every rank parks at "start" before doing anything
        for r in range(self.size):
            self._await_request(r)

    def _await_request(self, r):
        fd = self.pipes[r][0]
        ready, _, _ = select.select([fd], [], [], 120.0)
        if not ready:
            raise SimError(f"rank {r} neither finished nor issued a transport call within 120 s")
        try:
            req = _read_msg(fd)
        except EOFError:
            self.finished[r] = ("exc", {"type": "RankDied", "msg": "rank process ended without a result", "tb": ""})
            self.parked.pop(r, None)
            return
        kind = req[0]
        if kind in ("done", "exc"):
            self.finished[r] = (kind, req[1])
            self.parked.pop(r, None)
        elif kind == "abort":
            self.finished[r] = ("abort", req[1])
            self.parked.pop(r, None)
        else:
            if kind == "send":
                _, dst, tag, payload = req
                delay = self.rng.randint(1, self.max_delay) if self.rng.random() < self.p_delay else 0
                self.send_seq += 1
                self.inflight.setdefault((r, dst, tag), []).append((self.step + delay, payload, self.send_seq))
                self.stats["messages"] += 1
                self.stats["bytes"] += len(payload)
                if delay:
                    self.stats["delayed_messages"] += 1
                if tag >= (1 << 20):
                    self.stats["collective_messages"] += 1
                n = sum(len(v) for v in self.inflight.values())
                self.stats["max_inflight"] = max(self.stats["max_inflight"], n)
                self._log("send", r, dst, tag, delay, len(payload))
                self.last_was_send[r] = True
            elif kind == "recv":
                # stall a rank right after it has sent (its ghost cells) and before it receives
                if self.last_was_send.get(r) and self.rng.random() < self.p_stall:
                    self.stalled_until[r] = self.step + self.rng.randint(1, self.max_stall)
                    self.stats["stalls"] += 1
                    self.stats["stall_after_send_before_recv"] += 1
                self.last_was_send[r] = False
            self.parked[r] = req

    def _log(self, *event):
        self.trace.update(repr(event).encode())
        if len(self.events) < 400:
            self.events.append(event)

    # ---- enabledness
    def _deliverable(self, r, req):
        _, src, tag = req
        if src < 0 or tag < 0:
            raise SimError("wildcard receives are not modelled (py-pde does not use them)")
        q = self.inflight.get((src, r, tag))
        if not q:
            return None
        if q[0][0] <= self.step:
            return (src, r, tag)
        return None

    def _enabled(self):
        out = []
        for r, req in sorted(self.parked.items()):
            if self.stalled_until.get(r, -1) > self.step:
                continue
            if req[0] == "recv":
                if self._deliverable(r, req) is not None:
                    out.append(r)
            else:
                out.append(r)
        return out

    # ---- main loop
    def run(self):
        """Returns None on normal completion, or a dict describing a deadlock / abort / step-cap."""
        rr = 0
        while len(self.finished) < self.size:
            if any(k in ("exc", "abort") for k, _ in self.finished.values()):
                return {"kind": "rank-failed"}
            if self.step > self.max_steps:
                return {"kind": "no-progress", "detail": f"more than {self.max_steps} scheduler steps"}
            enabled = self._enabled()
            if not enabled:
                # time passes: either a stall ends or a delayed message becomes deliverable
                horizon = [t for r, t in self.stalled_until.items() if r in self.parked and t > self.step]
                for (src, dst, tag), q in self.inflight.items():
                    if q and dst in self.parked and self.parked[dst][0] == "recv" and self.parked[dst][1:] == (src, tag):
                        horizon.append(q[0][0])
                horizon = [t for t in horizon if t > self.step]
                if not horizon:
                    blocked = {r: req[1:3] for r, req in self.parked.items() if req[0] == "recv"}
                    pending = {f"{k[0]}->{k[1]} tag {k[2]}": len(v) for k, v in self.inflight.items() if v}
                    return {"kind": "deadlock", "detail": f"no rank can proceed: blocked receives (source, tag) {blocked}; undelivered messages {pending}"}
                self.stats["steps_waiting"] += min(horizon) - self.step
                self.step = min(horizon)
                continue
            for r, req in self.parked.items():
                if req[0] == "recv" and r not in enabled and self.inflight.get((req[1], r, req[2])):
                    self.stats["recv_blocked_on_undelivered"] += 1
            if self.policy == "lowest":
                r = enabled[0]
            elif self.policy == "highest":
                r = enabled[-1]
            elif self.policy == "roundrobin":
                r = enabled[rr % len(enabled)]
                rr += 1
            else:
                r = self.rng.choice(enabled)
            self.stats["decisions"] += 1
            req = self.parked.pop(r)
            if req[0] == "recv":
                key = self._deliverable(r, req)
                _, payload, seq = self.inflight[key].pop(0)
                if seq < self.delivered_seq.get(r, 0):
                    self.stats["reordered_deliveries"] += 1
                self.delivered_seq[r] = max(self.delivered_seq.get(r, 0), seq)
                self._log("grant-recv", r, key[0], key[2])
                _write_msg(self.pipes[r][1], payload)
            else:
                self._log("grant", r, req[0])
                _write_msg(self.pipes[r][1], None)
            self.step += 1
            self._await_request(r)
        return None

    def leftovers(self):
        return {f"{k[0]}->{k[1]} tag {k[2]}": len(v) for k, v in self.inflight.items() if v}

    def shutdown(self):
        for r, pid in self.pids.items():
            try:
                os.kill(pid, signal.SIGKILL)
            except ProcessLookupError:
                pass
        for r, pid in self.pids.items():
            try:
                os.waitpid(pid, 0)
            except ChildProcessError:
                pass
        for fds in self.pipes.values():
            for fd in fds:
                try:
                    os.close(fd)
                except OSError:
                    pass

    def signature(self):
        return self.trace.hexdigest()[:16]


def run_ranks(size, sched_spec, program, args):
    """Run `program(rank, size, args)` on `size` simulated ranks.  Returns (outcome, results, sim)."""
    sim = Simulator(size, sched_spec)
    try:
        sim.launch(program, args)
        outcome = sim.run()
    finally:
        sim.shutdown()
    return outcome, dict(sim.finished), sim
