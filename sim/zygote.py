"""Pristine-interpreter reference server (seam S7 of DESIGN.md).

Run as a script in its OWN interpreter (other PYTHONHASHSEED than the history process).  It
imports py-pde, does nothing else, and then forks one child per request; the child performs
the request once with freshly built objects, returns the value and exits.  That is "the same
call in a fresh interpreter".

Protocol on stdin/stdout: 4-byte little-endian length + pickle.
"""

from __future__ import annotations

import os
import pickle
import signal
import struct
import subprocess
import sys
import traceback

ROOT = os.path.dirname(os.path.dirname(os.path.abspath(__file__)))


def _read_exact(f, n):
    buf = b""
    while len(buf) < n:
        b = f.read(n - len(buf))
        if not b:
            return None
        buf += b
    return buf


def serve(module_name: str) -> None:
    import importlib
    import logging
    import warnings

    logging.disable(logging.WARNING)
    warnings.filterwarnings("ignore")
    mod = importlib.import_module(module_name)
    if hasattr(mod, "prepare"):
        mod.prepare()
    inp, out = sys.stdin.buffer, sys.stdout.buffer
    out.write(b"READY\n")
    out.flush()
    while True:
        hdr = _read_exact(inp, 4)
        if hdr is None:
            return
        (n,) = struct.unpack("<I", hdr)
        payload = _read_exact(inp, n)
        if payload is None:
            return
        rfd, wfd = os.pipe()
        pid = os.fork()
        if pid == 0:
            try:
                os.close(rfd)
                signal.signal(signal.SIGALRM, signal.SIG_DFL)
                signal.alarm(90)
                try:
                    res = mod.perform_fresh(pickle.loads(payload))
                except BaseException:  # noqa: BLE001
                    res = {"harness_error": traceback.format_exc()[-3000:]}
                data = pickle.dumps(res)
                with os.fdopen(wfd, "wb") as f:
                    f.write(data)
            finally:
                os._exit(0)
        os.close(wfd)
        chunks = []
        with os.fdopen(rfd, "rb") as f:
            while True:
                b = f.read(1 << 16)
                if not b:
                    break
                chunks.append(b)
        os.waitpid(pid, 0)
        data = b"".join(chunks) or pickle.dumps({"harness_error": "reference child died without a result"})
        out.write(struct.pack("<I", len(data)))
        out.write(data)
        out.flush()


class ZygoteClient:
    """Owned by a worker process; used (through inherited pipes) by its forked plan children,
    one at a time."""

    def __init__(self, module_name: str, hashseed: str = "777", extra_env: dict | None = None):
        self.module_name = module_name
        self.hashseed = hashseed
        self.extra_env = extra_env or {}
        self.proc = None

    def start(self):
        if self.proc is not None and self.proc.poll() is None:
            return
        env = dict(os.environ)
        env["PYTHONHASHSEED"] = self.hashseed
        env.update(self.extra_env)
        repo = os.environ.get("VERIF_REPO", "/repo")
        self.proc = subprocess.Popen(
            [sys.executable, "-c",
             "import sys; sys.path[:0]=[%r,%r]; from sim import zygote; zygote.serve(%r)" % (repo, ROOT, self.module_name)],
            stdin=subprocess.PIPE, stdout=subprocess.PIPE, env=env, cwd=ROOT)
        line = self.proc.stdout.readline()
        if line.strip() != b"READY":
            raise RuntimeError(f"zygote did not start: {line!r}")

    def stop(self):
        if self.proc is not None:
            try:
                self.proc.stdin.close()
            except Exception:  # noqa: BLE001
                pass
            try:
                self.proc.kill()
                self.proc.wait(timeout=5)
            except Exception:  # noqa: BLE001
                pass
            self.proc = None

    def call(self, request):
        data = pickle.dumps(request)
        w, r = self.proc.stdin, self.proc.stdout
        w.write(struct.pack("<I", len(data)))
        w.write(data)
        w.flush()
        hdr = _read_exact(r, 4)
        if hdr is None:
            raise RuntimeError("zygote closed the pipe")
        (n,) = struct.unpack("<I", hdr)
        return pickle.loads(_read_exact(r, n))
