"""Stand-in for mpi4py: the simulated transport of mpi-sim (DESIGN.md 4.8)."""
__version__ = "0.0-simulated"
from . import MPI  # noqa: F401,E402
