"""The part of mpi4py.MPI that py-pde uses, routed through a transport object the simulator
installs in every rank process.  Without a transport (size 1) it behaves like a single-process
MPI world.

What the simulated MPI guarantees is what the standard guarantees and nothing more: reliable
delivery, eager (buffered) sends that never block, non-overtaking messages per
(source, destination, tag); everything else - who runs next, when a message becomes deliverable,
how ranks interleave - is decided by the simulator's seeded scheduler.
"""

from __future__ import annotations

import pickle

import numpy as np


class Op:
    def __init__(self, name, addr, fn):
        self.name, self._addr, self._fn = name, addr, fn

    def __call__(self, a, b):
        return self._fn(a, b)

    def __repr__(self):
        return f"<simulated MPI.{self.name}>"


MAX = Op("MAX", 101, lambda a, b: np.maximum(a, b) if isinstance(a, np.ndarray) or isinstance(b, np.ndarray) else max(a, b))
MIN = Op("MIN", 102, lambda a, b: np.minimum(a, b) if isinstance(a, np.ndarray) or isinstance(b, np.ndarray) else min(a, b))
SUM = Op("SUM", 103, lambda a, b: a + b)
ANY_SOURCE = -1
ANY_TAG = -1
COLLECTIVE_TAG_BASE = 1 << 20


def _addressof(op) -> int:
    return op._addr


def Is_initialized() -> bool:
    return True


class _Comm:
    def __init__(self):
        self.size = 1
        self.rank = 0
        self._transport = None
        self._coll = 0  # number of collectives this rank has entered (SPMD: same order on all ranks)

    # -- plumbing
    def Get_size(self):
        return self.size

    def Get_rank(self):
        return self.rank

    def _next_coll_tag(self):
        self._coll += 1
        return COLLECTIVE_TAG_BASE + self._coll

    # -- point to point
    def send(self, obj, dest, tag=0):
        if self._transport is None:
            raise RuntimeError("simulated MPI: send in a world of size 1")
        self._transport.send(pickle.dumps(obj, protocol=pickle.HIGHEST_PROTOCOL), int(dest), int(tag))

    def recv(self, buf=None, source=ANY_SOURCE, tag=ANY_TAG):
        if self._transport is None:
            raise RuntimeError("simulated MPI: recv in a world of size 1")
        return pickle.loads(self._transport.recv(int(source), int(tag)))

    # -- collectives, built from point-to-point messages on reserved tags
    def bcast(self, obj, root=0):
        if self.size == 1:
            return obj
        tag = self._next_coll_tag()
        if self.rank == root:
            for r in range(self.size):
                if r != root:
                    self.send(obj, r, tag)
            return obj
        return self.recv(source=root, tag=tag)

    def gather(self, obj, root=0):
        if self.size == 1:
            return [obj]
        tag = self._next_coll_tag()
        if self.rank == root:
            return [obj if r == root else self.recv(source=r, tag=tag) for r in range(self.size)]
        self.send(obj, root, tag)
        return None

    def scatter(self, objs, root=0):
        if self.size == 1:
            return objs[0] if objs is not None else None
        tag = self._next_coll_tag()
        if self.rank == root:
            if objs is None or len(objs) != self.size:
                raise ValueError("simulated MPI: scatter needs one item per rank on the root")
            for r in range(self.size):
                if r != root:
                    self.send(objs[r], r, tag)
            return objs[root]
        return self.recv(source=root, tag=tag)

    def allgather(self, obj):
        return self.bcast(self.gather(obj, root=0), root=0)

    def allreduce(self, obj, op=SUM):
        items = self.gather(obj, root=0)
        res = None
        if self.rank == 0:
            res = items[0]
            for x in items[1:]:
                res = op(res, x)
        return self.bcast(res, root=0)

    def Allreduce(self, sendbuf, recvbuf, op=SUM):
        recvbuf[...] = self.allreduce(np.array(sendbuf, copy=True), op=op)

    def Barrier(self):
        self.allgather(None)

    def Abort(self, errorcode=0):
        if self._transport is not None:
            import sys
            import traceback

            et, ev, tb = sys.exc_info()  # py-pde aborts from inside an `except` block: tell the simulator why
            info = {"type": et.__name__ if et else "Abort", "msg": str(ev)[:500] if ev else f"Abort({errorcode})",
                    "tb": "".join(traceback.format_exception(et, ev, tb))[-1500:] if et else ""}
            self._transport.abort(int(errorcode), info)
        raise SystemExit(errorcode)


COMM_WORLD = _Comm()
