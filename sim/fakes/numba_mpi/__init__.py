"""Stand-in for the `numba_mpi` package (mpi-sim, DESIGN.md 4.8).

Only importability is needed: py-pde's numba overloads that would call it are reachable from
compiled code only, and the simulation runs with NUMBA_DISABLE_JIT=1, where the python-level
functions of pde/tools/mpi.py (ending in the fake mpi4py.MPI.COMM_WORLD) are executed instead."""

__version__ = "0.0-simulated"


def _unavailable(*args, **kwargs):
    raise RuntimeError("numba_mpi is simulated: compiled MPI calls are not available in mpi-sim")


send = recv = allreduce = bcast = _unavailable
