"""Common machinery of the deterministic simulation checks (DESIGN.md section 3).

One integer (VERIF_SEED) decides everything.  A run is (property, run_index); its plan
is a pure function of those, its execution a pure function of the plan and the code in
VERIF_REPO.  Every plan is executed in a freshly forked child of a worker that has
imported py-pde and done nothing else, so that no run can see what another run left in
py-pde's process-wide caches and a replay in a fresh interpreter sees the same thing.

Exit codes of a check: 0 held / 1 VIOLATION / 2 HARNESS-ERROR (machinery broken; never
reported as 0 and never as a violation).
"""

from __future__ import annotations

import concurrent.futures as cf
import copy
import faulthandler
import hashlib
import json
import multiprocessing as mp
import os
import random
import signal
import subprocess
import sys
import time
import traceback

ROOT = os.path.dirname(os.path.dirname(os.path.abspath(__file__)))
REPO = os.environ.get("VERIF_REPO", "/repo")
REPLAY_DIR = os.path.join(ROOT, "replays")
EVIDENCE_DIR = os.environ.get("VERIF_EVIDENCE_DIR", os.path.join(ROOT, "evidence"))
KNOWN_FINDINGS = os.path.join(ROOT, "known_findings.json")


# ----------------------------------------------------------------------------------
# seeds, digests
# ----------------------------------------------------------------------------------


def root_seed() -> int:
    try:
        return int(os.environ.get("VERIF_SEED", "0"))
    except ValueError:
        return 0


def rng_for(prop: str, run_index: int, seed: int | None = None, salt: str = "") -> random.Random:
    """The one PRNG of a run: a pure function of (VERIF_SEED, property, run index)."""
    if seed is None:
        seed = root_seed()
    h = hashlib.sha256(f"{seed}:{prop}:{run_index}:{salt}".encode()).digest()
    return random.Random(int.from_bytes(h[:16], "big"))


def canon(obj) -> str:
    return json.dumps(obj, sort_keys=True, separators=(",", ":"), default=_json_default)


def _json_default(o):
    try:
        import numpy as np

        if isinstance(o, np.ndarray):
            return {"__nd__": o.dtype.str, "shape": list(o.shape), "hex": o.tobytes().hex()}
        if isinstance(o, (np.floating,)):
            return float(o)
        if isinstance(o, (np.integer,)):
            return int(o)
        if isinstance(o, (np.bool_,)):
            return bool(o)
        if isinstance(o, (np.complexfloating, complex)):
            return {"__c__": [float(o.real), float(o.imag)]}
    except ImportError:  # pragma: no cover
        pass
    if isinstance(o, complex):
        return {"__c__": [o.real, o.imag]}
    if isinstance(o, (set, frozenset)):
        return sorted(o)
    if isinstance(o, bytes):
        return o.hex()
    return repr(o)


def digest_of(obj) -> str:
    return hashlib.sha256(canon(obj).encode()).hexdigest()


class EventLog:
    """Append-only log of what happened in a run; its digest identifies the execution.

    Logging never draws from a PRNG and never reads a clock.
    """

    def __init__(self, keep: int = 400):
        self._h = hashlib.sha256()
        self.n = 0
        self.keep = keep
        self.head: list = []

    def add(self, *event) -> None:
        s = canon(event)
        self._h.update(s.encode())
        self._h.update(b"\n")
        if self.n < self.keep:
            self.head.append(event)
        self.n += 1

    def digest(self) -> str:
        return self._h.hexdigest()


def fbits(x) -> str:
    """Exact, hash-seed independent text of a float / complex / array (for event logs)."""
    import numpy as np

    a = np.asarray(x)
    if a.ndim == 0:
        if np.iscomplexobj(a):
            return complex(a).real.hex() + "+" + complex(a).imag.hex() + "j"
        return float(a).hex()
    return hashlib.sha256(np.ascontiguousarray(a).tobytes()).hexdigest()[:16]


# ----------------------------------------------------------------------------------
# violations
# ----------------------------------------------------------------------------------


def violation(klass: str, detail: str, key: str | None = None) -> dict:
    """`klass` is what minimisation preserves; `key` is what known_findings match on."""
    return {"class": klass, "key": key or klass, "detail": detail[:2000]}


def load_known_findings(prop: str):
    try:
        with open(KNOWN_FINDINGS) as f:
            data = json.load(f)
    except FileNotFoundError:
        return {}
    out = {}
    for e in data.get("findings", []):
        if e.get("property") == prop and e.get("status") == "open":
            out[e["key"]] = e
    return out


# ----------------------------------------------------------------------------------
# isolated execution of one plan
# ----------------------------------------------------------------------------------


def _child_run(engine, plan, wfd, timeout_s):
    try:
        signal.signal(signal.SIGALRM, signal.SIG_DFL)
        signal.alarm(int(timeout_s))
        try:
            faulthandler.enable(file=sys.stderr)
            faulthandler.dump_traceback_later(max(1, timeout_s - 1), exit=False, file=sys.stderr)
        except Exception:
            pass
        try:
            res = engine.execute(plan)
        except BaseException:  # noqa: BLE001 - everything uncaught is the harness' fault
            res = {"harness_error": traceback.format_exc()[-4000:]}
        try:
            data = canon(res).encode()
        except Exception:
            data = canon({"harness_error": "unserialisable result: " + traceback.format_exc()[-2000:]}).encode()
        with os.fdopen(wfd, "wb") as f:
            f.write(data)
            f.flush()
    finally:
        os._exit(0)


def run_isolated(engine, plan, timeout_s: int = 120) -> dict:
    """Execute `plan` in a forked child of the current (pristine) process."""
    if not getattr(engine, "ISOLATE", True):
        try:
            return json.loads(canon(engine.execute(plan)))
        except BaseException:  # noqa: BLE001
            return {"harness_error": traceback.format_exc()[-4000:]}
    if hasattr(engine, "worker_init"):
        engine.worker_init()
    sys.stdout.flush()
    sys.stderr.flush()
    rfd, wfd = os.pipe()
    pid = os.fork()
    if pid == 0:
        os.close(rfd)
        _child_run(engine, plan, wfd, timeout_s)
    os.close(wfd)
    chunks = []
    with os.fdopen(rfd, "rb") as f:
        while True:
            b = f.read(1 << 16)
            if not b:
                break
            chunks.append(b)
    _, status = os.waitpid(pid, 0)
    data = b"".join(chunks)
    if not data:
        if os.WIFSIGNALED(status) and os.WTERMSIG(status) == signal.SIGALRM:
            return {"harness_error": f"timeout after {timeout_s}s (child killed by SIGALRM)"}
        return {"harness_error": f"child died without a result (wait status {status})"}
    try:
        return json.loads(data)
    except Exception:
        return {"harness_error": "unparsable child output"}


# ----------------------------------------------------------------------------------
# batch runner
# ----------------------------------------------------------------------------------

_ENGINE = None  # set in workers by inheritance over fork


def _worker_chunk(args):
    prop, seed, tier, indices, timeout_s = args
    engine = _ENGINE
    out = []
    timeouts = 0
    if hasattr(engine, "worker_init"):
        engine.worker_init()  # per-process helpers (e.g. the pristine reference interpreter of C04)
    for idx in indices:
        if timeouts >= 2:
            out.append((idx, None, {"harness_error": "skipped: two runs of this chunk timed out before"}, 0.0))
            continue
        rng = rng_for(prop, idx, seed)
        t0 = time.perf_counter()
        try:
            plan = engine.gen_plan(rng, tier, idx)
        except BaseException:  # noqa: BLE001
            out.append((idx, None, {"harness_error": "gen_plan: " + traceback.format_exc()[-3000:]}, 0.0))
            continue
        res = run_isolated(engine, plan, timeout_s)
        if "harness_error" in res and res["harness_error"].startswith("timeout"):
            timeouts += 1
            if hasattr(engine, "worker_reset"):
                engine.worker_reset()
        out.append((idx, plan, res, time.perf_counter() - t0))
    return out


def _merge_stats(total: dict, stats: dict) -> None:
    for k, v in stats.items():
        if isinstance(v, bool):
            v = int(v)
        if isinstance(v, (int, float)):
            total[k] = total.get(k, 0) + v
        elif isinstance(v, dict):
            _merge_stats(total.setdefault(k, {}), v)


def n_workers() -> int:
    try:
        return max(1, int(os.environ.get("VERIF_WORKERS", "0"))) if os.environ.get("VERIF_WORKERS") else min(16, os.cpu_count() or 1)
    except ValueError:
        return min(16, os.cpu_count() or 1)


def run_batch(engine, tier: str, n_runs: int, budget_s: float, *, seed=None, start_index: int = 0,
              chunk: int = 16, timeout_s: int = 120, workers: int | None = None, want_digests: bool = False):
    """Run `n_runs` seeded runs; returns an aggregate dict (no printing, no files)."""
    global _ENGINE
    _ENGINE = engine
    prop = engine.PROPERTY
    if seed is None:
        seed = root_seed()
    workers = workers or n_workers()
    t_start = time.monotonic()
    indices = list(range(start_index, start_index + n_runs))
    tasks = [(prop, seed, tier, indices[i:i + chunk], timeout_s) for i in range(0, len(indices), chunk)]
    agg = {
        "runs": 0, "stats": {}, "sigs": set(), "violations": [], "harness_errors": [],
        "samples": [], "sim_time": 0.0, "sched_steps": 0, "budget_exhausted": False,
        "digests": {}, "exec_s": 0.0,
    }

    def consume(results):
        for idx, plan, res, dt in results:
            agg["exec_s"] += dt
            if "harness_error" in res:
                agg["harness_errors"].append({"run_index": idx, "error": res["harness_error"], "plan": plan})
                continue
            agg["runs"] += 1
            _merge_stats(agg["stats"], res.get("stats", {}))
            agg["sim_time"] += float(res.get("sim_time", 0.0) or 0.0)
            agg["sched_steps"] += int(res.get("sched_steps", 0) or 0)
            if res.get("nontrivial"):
                agg["sigs"].add(res.get("sig") or digest_of(plan))
            if want_digests:
                agg["digests"][idx] = res.get("digest")
            if len(agg["samples"]) < 3 and idx < start_index + 3:
                agg["samples"].append({"run_index": idx, "plan": plan, "digest": res.get("digest"),
                                       "events_head": res.get("events_head", [])[:12]})
            if res.get("violation"):
                agg["violations"].append({"run_index": idx, "plan": plan, "violation": res["violation"],
                                          "digest": res.get("digest")})

    if workers == 1:
        for task in tasks:
            if time.monotonic() - t_start > budget_s:
                agg["budget_exhausted"] = True
                break
            consume(_worker_chunk(task))
    else:
        ctx = mp.get_context("fork")
        with cf.ProcessPoolExecutor(max_workers=workers, mp_context=ctx) as pool:
            pending = {}
            it = iter(tasks)
            # keep the queue short so that a budget stop does not wait for a long tail
            for task in it:
                pending[pool.submit(_worker_chunk, task)] = task
                if len(pending) >= workers * 2:
                    break
            while pending:
                done, _ = cf.wait(list(pending), timeout=5.0, return_when=cf.FIRST_COMPLETED)
                for fut in done:
                    pending.pop(fut)
                    try:
                        consume(fut.result())
                    except BaseException:  # noqa: BLE001
                        agg["harness_errors"].append({"run_index": -1, "error": "worker: " + traceback.format_exc()[-3000:], "plan": None})
                over = time.monotonic() - t_start > budget_s
                if over:
                    agg["budget_exhausted"] = True
                while not over and len(pending) < workers * 2:
                    try:
                        task = next(it)
                    except StopIteration:
                        break
                    pending[pool.submit(_worker_chunk, task)] = task
                if over and not done and time.monotonic() - t_start > budget_s + 4 * timeout_s:
                    agg["harness_errors"].append({"run_index": -1, "error": "workers did not drain after the budget", "plan": None})
                    for fut in pending:
                        fut.cancel()
                    break
    agg["wall_s"] = time.monotonic() - t_start
    agg["samples"].sort(key=lambda s: s["run_index"])
    agg["violations"].sort(key=lambda v: v["run_index"])
    return agg


# ----------------------------------------------------------------------------------
# minimisation (ddmin over the plan's lists + engine-specific simplifications)
# ----------------------------------------------------------------------------------


def minimise(engine, plan: dict, target_class: str, *, max_execs: int = 250, max_s: float = 150.0,
             timeout_s: int = 120):
    t0 = time.monotonic()
    execs = 0

    def fails(p) -> bool:
        nonlocal execs
        execs += 1
        res = run_isolated(engine, p, timeout_s)
        v = res.get("violation")
        return bool(v) and v["class"] == target_class

    def out_of_budget() -> bool:
        return execs >= max_execs or time.monotonic() - t0 > max_s

    best = copy.deepcopy(plan)
    list_keys = list(getattr(engine, "shrink_lists", lambda p: [])(best))
    for key in list_keys:
        items = list(best.get(key, []))
        n = 2
        while len(items) >= 1 and not out_of_budget():
            size = max(1, len(items) // n)
            removed_any = False
            i = 0
            while i < len(items) and not out_of_budget():
                cand_items = items[:i] + items[i + size:]
                cand = copy.deepcopy(best)
                cand[key] = cand_items
                if fails(cand):
                    items = cand_items
                    best = cand
                    removed_any = True
                else:
                    i += size
            if not removed_any:
                if size == 1:
                    break
                n = min(len(items), n * 2) if items else 1
            else:
                n = max(2, n - 1)
    simplify = getattr(engine, "simplify", None)
    if simplify is not None:
        progress = True
        while progress and not out_of_budget():
            progress = False
            for cand in simplify(copy.deepcopy(best)):
                if out_of_budget():
                    break
                if canon(cand) == canon(best):
                    continue
                if fails(cand):
                    best = cand
                    progress = True
                    break
    return best, execs


# ----------------------------------------------------------------------------------
# replay files
# ----------------------------------------------------------------------------------


def write_replay(prop: str, seed: int, entry: dict, min_plan: dict, min_res: dict, minimised: bool, note: str = "") -> str:
    os.makedirs(REPLAY_DIR, exist_ok=True)
    doc = {
        "property": prop,
        "seed": seed,
        "run_index": entry["run_index"],
        "violation": min_res["violation"],
        "digest": min_res.get("digest"),
        "plan": min_plan,
        "minimised": minimised,
        "original_plan": entry["plan"] if minimised else None,
        "original_violation": entry["violation"],
        "events_head": min_res.get("events_head", [])[:60],
        "note": note,
        "replay_cmd": f"./check {prop} --replay <this file>",
    }
    name = f"{prop}-{digest_of([min_plan, min_res['violation']['class']])[:12]}.json"
    path = os.path.join(REPLAY_DIR, name)
    with open(path, "w") as f:
        json.dump(doc, f, indent=1, sort_keys=True, default=_json_default)
    return path


def fresh_interpreter_exec(prop: str, plan: dict, timeout_s: int = 300, hashseed: str = "0") -> dict:
    """Execute a plan in a brand-new interpreter (used to confirm a replay file)."""
    env = dict(os.environ)
    env["PYTHONHASHSEED"] = hashseed
    env["VERIF_REEXEC"] = "1"
    p = subprocess.run([sys.executable, os.path.join(ROOT, "check"), prop, "--exec-plan", "-"],
                       input=canon(plan).encode(), capture_output=True, env=env, timeout=timeout_s, cwd=ROOT)
    for line in p.stdout.decode(errors="replace").splitlines()[::-1]:
        if line.startswith("RESULT "):
            return json.loads(line[7:])
    return {"harness_error": "fresh interpreter gave no result: " + p.stderr.decode(errors="replace")[-1500:]}


# ----------------------------------------------------------------------------------
# evidence
# ----------------------------------------------------------------------------------


def _trim(obj, limit=6000):
    s = canon(obj)
    if len(s) <= limit:
        return json.loads(s)
    return {"truncated_json": s[:limit]}


def write_evidence(engine, tier: str, seed: int, agg: dict, extra: dict, n_viol: int, assumptions: list[str]):
    os.makedirs(EVIDENCE_DIR, exist_ok=True)
    prop = engine.PROPERTY
    wall = float(agg.get("wall_s", 0.0))
    runs = int(agg["runs"])
    coverage = {
        "evaluations": runs,
        "distinct_nontrivial": len(agg["sigs"]),
        "rule": engine.RULE,
        "samples": [_trim(s) for s in agg["samples"]] or [{"note": "no run completed"}],
        "runs_per_hour": round(runs / wall * 3600.0) if wall > 0 else 0,
        "simulated_time_covered": agg.get("sim_time", 0.0),
        "scheduler_steps": agg.get("sched_steps", 0),
        "counters": agg["stats"],
        "budget_exhausted": bool(agg.get("budget_exhausted")),
        "harness_errors": len(agg["harness_errors"]),
        "components": getattr(engine, "COMPONENTS", {}),
        "workers": n_workers(),
        "repo": REPO,
    }
    coverage.update(extra or {})
    doc = {
        "property_id": prop,
        "tier": tier,
        "seed": int(seed),
        "level": "exploration",
        "coverage": coverage,
        "assumptions": assumptions,
        "wall_s": round(wall, 3),
        "violations": int(n_viol),
    }
    path = os.path.join(EVIDENCE_DIR, f"{prop}.json")
    tmp = path + ".tmp"
    with open(tmp, "w") as f:
        json.dump(doc, f, indent=1, sort_keys=True, default=_json_default)
    os.replace(tmp, path)
    return path


# ----------------------------------------------------------------------------------
# the standard main of a check
# ----------------------------------------------------------------------------------


def determinism_sample(engine, tier: str, seed: int, n: int, timeout_s: int = 600):
    """Re-run the first n runs in a fresh interpreter under another PYTHONHASHSEED with
    one worker and compare digests with those of this process (which ran them on many
    workers).  A mismatch means the machinery does not replay: HARNESS-ERROR."""
    env = dict(os.environ)
    env["PYTHONHASHSEED"] = "4242"
    env["VERIF_REEXEC"] = "1"
    env["VERIF_SEED"] = str(seed)
    env["VERIF_WORKERS"] = str(max(1, min(4, n_workers())))
    p = subprocess.run([sys.executable, os.path.join(ROOT, "check"), engine.PROPERTY, "--tier", tier,
                        "--digests", str(n)], capture_output=True, env=env, timeout=timeout_s, cwd=ROOT)
    for line in p.stdout.decode(errors="replace").splitlines()[::-1]:
        if line.startswith("DIGESTS "):
            return {int(k): v for k, v in json.loads(line[8:]).items()}
    raise RuntimeError("determinism sample produced no digests: " + p.stderr.decode(errors="replace")[-1500:])


def standard_main(engine, tier: str, *, quiet: bool = False, write_ev: bool = True) -> int:
    prop = engine.PROPERTY
    seed = root_seed()
    cfg = engine.TIERS[tier]
    n_runs = int(os.environ.get("VERIF_RUNS", cfg["runs"]))
    budget = float(os.environ.get("VERIF_BUDGET_S", cfg["budget_s"]))
    timeout_s = int(os.environ.get("VERIF_TIMEOUT_S", cfg.get("timeout_s", 120)))
    det_n = int(os.environ.get("VERIF_DET_SAMPLE", cfg.get("det_sample", 32)))
    print(f"[{prop}] tier={tier} VERIF_SEED={seed} runs<={n_runs} budget={budget:.0f}s workers={n_workers()} repo={REPO}", flush=True)
    t0 = time.monotonic()
    agg = run_batch(engine, tier, n_runs, budget, seed=seed, chunk=cfg.get("chunk", 16), timeout_s=timeout_s,
                    want_digests=True)
    extra = {}
    rc = 0
    # -- extra sub-batches of an engine (e.g. JIT confirmation), same contract
    post = getattr(engine, "post_batch", None)
    if post is not None and not os.environ.get("VERIF_JIT_CHILD"):
        try:
            more = post(tier, seed, agg)
            if more:
                extra.update(more.get("coverage", {}))
                agg["violations"].extend(more.get("violations", []))
                agg["harness_errors"].extend(more.get("harness_errors", []))
        except BaseException:  # noqa: BLE001
            agg["harness_errors"].append({"run_index": -1, "error": "post_batch: " + traceback.format_exc()[-3000:], "plan": None})

    # -- determinism sample (fresh interpreter, other hash seed, other worker count)
    det = {"checked": 0, "mismatches": 0}
    if det_n > 0 and agg["runs"] > 0 and not os.environ.get("VERIF_NO_DET"):
        try:
            other = determinism_sample(engine, tier, seed, min(det_n, n_runs))
            for idx, dg in other.items():
                if idx in agg["digests"]:
                    det["checked"] += 1
                    if agg["digests"][idx] != dg:
                        det["mismatches"] += 1
                        agg["harness_errors"].append({"run_index": idx, "error": f"non-deterministic run: digest {agg['digests'][idx]} here vs {dg} in a fresh interpreter (PYTHONHASHSEED=4242)", "plan": None})
        except BaseException:  # noqa: BLE001
            agg["harness_errors"].append({"run_index": -1, "error": "determinism sample: " + traceback.format_exc()[-2000:], "plan": None})
    extra["determinism_sample"] = det

    # -- violations: dedupe by key, known findings, minimise, replay files
    known = load_known_findings(prop)
    by_key: dict[str, dict] = {}
    for v in agg["violations"]:
        by_key.setdefault(v["violation"]["key"], v)
    n_viol = 0
    reported = []
    for key, entry in sorted(by_key.items()):
        if key in known:
            print(f"KNOWN-FINDING: property={prop} {known[key].get('what', key)} [key={key}]", flush=True)
            continue
        n_viol += 1
        if len(reported) >= int(os.environ.get("VERIF_MAX_REPORTS", 4)):
            continue
        vclass = entry["violation"]["class"]
        plan = entry["plan"]
        note = ""
        if entry.get("no_minimise") or plan is None or float(os.environ.get("VERIF_SHRINK_S", "1")) <= 0:
            min_plan, min_res, minimised = plan, {"violation": entry["violation"], "digest": entry.get("digest")}, False
        else:
            try:
                min_plan, execs = minimise(engine, plan, vclass, max_execs=cfg.get("shrink_execs", 200),
                                           max_s=float(os.environ.get("VERIF_SHRINK_S", cfg.get("shrink_s", 90.0))),
                                           timeout_s=timeout_s)
                note = f"minimised with {execs} executions"
            except BaseException:  # noqa: BLE001
                min_plan, note = plan, "minimisation failed: " + traceback.format_exc()[-500:]
            minimised = canon(min_plan) != canon(plan)
            # confirm in a fresh interpreter; fall back to the original plan
            min_res = fresh_interpreter_exec(prop, min_plan, timeout_s=max(300, timeout_s * 2))
            if not (min_res.get("violation") and min_res["violation"]["class"] == vclass):
                note += "; minimised plan did not reproduce in a fresh interpreter -> reporting the unminimised plan (replay_unstable)"
                min_plan, minimised = plan, False
                min_res = fresh_interpreter_exec(prop, plan, timeout_s=max(300, timeout_s * 2))
                if not (min_res.get("violation") and min_res["violation"]["class"] == vclass):
                    note += "; the unminimised plan did not reproduce in a fresh interpreter either"
                    min_res = {"violation": entry["violation"], "digest": entry.get("digest")}
        path = write_replay(prop, seed, entry, min_plan, min_res, minimised, note)
        reported.append(path)
        print(f"VIOLATION property={prop} replay={path}", flush=True)
        print(f"  class={vclass} key={key} run_index={entry['run_index']}", flush=True)
        print(f"  detail={entry['violation']['detail'][:600]}", flush=True)
    if n_viol:
        rc = 1
    if agg["harness_errors"]:
        for he in agg["harness_errors"][:5]:
            print(f"HARNESS-ERROR property={prop} run_index={he['run_index']} {he['error'][-1200:]}", flush=True)
        rc = 2 if rc == 0 else rc
    if agg["runs"] == 0:
        print(f"HARNESS-ERROR property={prop} no run completed", flush=True)
        rc = 2 if rc == 0 else rc
    # reach probes stuck at zero
    for probe in getattr(engine, "PROBES", []):
        if not _lookup(agg["stats"], probe):
            print(f"WARNING probe '{probe}' was never hit in this batch", flush=True)
            extra.setdefault("probes_at_zero", []).append(probe)
    agg["wall_s"] = time.monotonic() - t0
    if write_ev:
        extra["distinct_violation_keys"] = sorted(by_key)
        path = write_evidence(engine, tier, seed, agg, extra, n_viol, list(getattr(engine, "ASSUMPTIONS", [])))
        if not quiet:
            print(f"[{prop}] evidence -> {path}", flush=True)
    print(f"[{prop}] runs={agg['runs']} distinct_nontrivial={len(agg['sigs'])} violations={n_viol} "
          f"harness_errors={len(agg['harness_errors'])} wall={agg['wall_s']:.1f}s"
          f"{' (budget exhausted)' if agg['budget_exhausted'] else ''} exit={rc}", flush=True)
    return rc


def _lookup(d: dict, dotted: str):
    cur = d
    for part in dotted.split("/"):
        if not isinstance(cur, dict) or part not in cur:
            return 0
        cur = cur[part]
    return cur


def replay_main(engine, path: str) -> int:
    with open(path) as f:
        doc = json.load(f)
    plan = doc["plan"]
    res = run_isolated(engine, plan, 600)
    if "harness_error" in res:
        print(f"HARNESS-ERROR property={engine.PROPERTY} {res['harness_error'][-1500:]}")
        return 2
    v = res.get("violation")
    want = doc.get("violation", {}).get("class")
    if v and (want is None or v["class"] == want):
        same = doc.get("digest") in (None, res.get("digest"))
        print(f"VIOLATION property={engine.PROPERTY} replay={path}")
        print(f"  class={v['class']} key={v['key']} digest_matches_recorded={same}")
        print(f"  detail={v['detail'][:1500]}")
        for ev in res.get("events_head", [])[:40]:
            print("   ", canon(ev)[:300])
        return 1
    print(f"[{engine.PROPERTY}] replay of {path}: no violation of class {want!r} (got {v})")
    return 0


# ----------------------------------------------------------------------------------
# JIT-mode sample (thorough tiers): the same seeded plans, executed with real numba compilation
# ----------------------------------------------------------------------------------


def jit_sample(engine, seed: int, runs: int, budget_s: int, timeout_s: int = 600, start_env: dict | None = None) -> dict:
    """Run the first `runs` plans of the quick tier once more in a separate `check` process with the
    JIT enabled (NUMBA_DISABLE_JIT=0).  Everything else - plans, oracles, isolation - is identical.
    Returns a dict in the post_batch format."""
    prop = engine.PROPERTY
    env = dict(os.environ)
    env.update({"NUMBA_DISABLE_JIT": "0", "VERIF_RUNS": str(runs), "VERIF_BUDGET_S": str(budget_s), "VERIF_NO_DET": "1",
                "VERIF_SEED": str(seed), "VERIF_REEXEC": "0", "VERIF_MAX_REPORTS": "2", "VERIF_SHRINK_S": "0",
                "VERIF_TIMEOUT_S": str(timeout_s), "VERIF_JIT_CHILD": "1",
                "VERIF_EVIDENCE_DIR": os.path.join(ROOT, "replays", "jit-evidence")})
    env.pop("PYTHONHASHSEED", None)
    env.update(start_env or {})
    t0 = time.monotonic()
    p = subprocess.run([os.path.join(ROOT, "check"), prop, "--tier", "quick"], capture_output=True, env=env, cwd=ROOT,
                       timeout=budget_s + 4 * timeout_s + 600)
    out = p.stdout.decode(errors="replace")
    summary = [line for line in out.splitlines() if line.startswith(f"[{prop}] runs=")]
    res = {"coverage": {"jit_sample": {"note": "the first plans of the quick tier re-executed with real numba compilation "
                                       "(NUMBA_DISABLE_JIT=0) in a separate process; same oracles",
                                       "requested_runs": runs, "exit_code": p.returncode, "wall_s": round(time.monotonic() - t0, 1),
                                       "summary": summary[-1] if summary else out[-300:]}},
           "violations": [], "harness_errors": []}
    if p.returncode == 1:
        lines = [line for line in out.splitlines() if line.startswith("VIOLATION") or line.strip().startswith(("class=", "detail="))]
        res["violations"].append({"run_index": -1, "plan": None, "no_minimise": True, "digest": None,
                                  "violation": violation(f"{prop}/jit-sample", "violation in JIT mode:\n" + "\n".join(lines)[:1500],
                                                         key=f"{prop}/jit-sample")})
    elif p.returncode != 0:
        res["harness_errors"].append({"run_index": -1, "error": "JIT sample failed: " + out[-800:] + p.stderr.decode(errors="replace")[-800:], "plan": None})
    return res
