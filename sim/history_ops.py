"""Operations of history-sim (C04): one implementation used twice - by the history process on
its live, cache-laden objects and by the pristine reference child on freshly built ones.

An op never raises for "not applicable" (it returns SKIP); exceptions raised by py-pde are
part of the result ({"exc": type name}) and compared like values.
"""

from __future__ import annotations

import gc

import numpy as np

SKIP = {"skip": True}

AXES = {"UnitGrid": "xyz", "CartesianGrid": "xyz", "PolarSymGrid": "r", "SphericalSymGrid": "r",
        "CylindricalSymGrid": "rz"}


def prepare():
    """Called once in the zygote / main process: import everything and warm sympy, then put
    py-pde's own process-wide caches back to 'nothing computed yet'."""
    from .prewarm import prewarm_pde

    prewarm_pde()
    import pde
    from pde.backends import get_backend

    g = pde.UnitGrid([3])
    f = pde.ScalarField(g, [1.0, 2.0, 4.0])
    eq = pde.PDE({"q": "laplace(q) + w * q**2 + sin(q)"}, bc={"value": 0.25}, consts={"w": 0.125})
    eq.evolution_rate(f, 0.0)
    pde.DiffusionPDE().evolution_rate(f, 0.0)
    pde.ScalarField.from_expression(g, "x**2 + 1")
    for b in ("numpy", "numba", "scipy"):
        try:
            get_backend(b)._cache_methods = {}
        except Exception:  # noqa: BLE001
            pass
    del g, f, eq
    gc.collect()


# --------------------------------------------------------------------------------------
# building objects from specs
# --------------------------------------------------------------------------------------


def build_grid(spec):
    import pde

    c = spec["cls"]
    if c == "UnitGrid":
        return pde.UnitGrid(spec["shape"], periodic=spec["periodic"])
    if c == "CartesianGrid":
        return pde.CartesianGrid(spec["bounds"], spec["shape"], periodic=spec["periodic"])
    rad = spec["radius"]
    rad = tuple(rad) if isinstance(rad, list) else rad
    if c == "PolarSymGrid":
        return pde.PolarSymGrid(rad, spec["shape"][0])
    if c == "SphericalSymGrid":
        return pde.SphericalSymGrid(rad, spec["shape"][0])
    if c == "CylindricalSymGrid":
        return pde.CylindricalSymGrid(rad, tuple(spec["bounds_z"]), spec["shape"], periodic_z=spec["periodic"][1])
    raise ValueError(c)


def field_label(fs):
    """Labels from a pool of three (mostly none): py-pde compares the attributes of states, which include the label, when
    it decides whether prepared functions can be used again - fields with a unique label each would never meet that path."""
    return (None, None, "c", None, "phi")[int(fs.get("seed", 0)) % 5]


def grid_periodic(spec):
    if spec["cls"] in ("PolarSymGrid", "SphericalSymGrid"):
        return [False]
    return list(spec["periodic"])


def _bc_function(c, ndim):
    """What a user's factory of boundary functions returns: closures of ONE def that differ in a captured value."""
    if ndim == 1:
        def value_func(value, dx, x, t):
            return c + 0 * value
    elif ndim == 2:
        def value_func(value, dx, x, y, t):
            return c + 0 * value
    else:
        def value_func(value, dx, x, y, z, t):
            return c + 0 * value
    return value_func


def build_bc(kind, gspec):
    """Boundary condition data for a grid, written per axis so that periodic axes are legal."""
    if isinstance(kind, str) and kind.startswith("auto_"):
        return kind
    names = AXES[gspec["cls"]][: len(gspec["shape"])]
    per = grid_periodic(gspec)
    anti = isinstance(kind, dict) and kind.get("_anti")
    if isinstance(kind, dict) and ("_anti" in kind or "_callable" in kind):
        kind = {k: v for k, v in kind.items() if not k.startswith("_")} if "_callable" not in kind else \
            {"value_expression": _bc_function(float(kind["_callable"]), len(names))}
    out = {}
    for name, p in zip(names, per):
        if p and anti:
            out[name] = "anti-periodic"
            continue
        if isinstance(kind, dict) and any("COORD" in str(v) for v in kind.values()) and not p:
            others = [n for n in names if n != name]
            out[name] = {k: str(v).replace("COORD", others[0] if others else "0.5") for k, v in kind.items()}
            continue
        if p:
            out[name] = "periodic"
        elif isinstance(kind, dict) and "low" in kind:
            out[name + "-"] = kind["low"]
            out[name + "+"] = kind["high"]
        else:
            out[name] = kind
    return out


def field_cls(rank):
    import pde

    return (pde.ScalarField, pde.VectorField, pde.Tensor2Field)[rank]


def initial_data(fspec, grid):
    rng = np.random.default_rng(fspec["seed"])
    shape = (grid.dim,) * fspec["rank"] + tuple(grid.shape)
    data = rng.uniform(0.5, 1.5, size=shape)
    if fspec["dtype"] == "complex":
        data = data + 1j * rng.uniform(-0.5, 0.5, size=shape)
    return data


def _double(x):
    return 2 * x


def build_eq(spec, gspec, user_funcs=None):
    import pde

    c = spec["cls"]
    bc = lambda k: build_bc(spec[k], gspec)  # noqa: E731
    if c == "DiffusionPDE":
        return pde.DiffusionPDE(diffusivity=spec["diffusivity"], bc=bc("bc"))
    if c == "AllenCahnPDE":
        return pde.AllenCahnPDE(interface_width=spec["interface_width"], mobility=spec["mobility"], bc=bc("bc"))
    if c == "CahnHilliardPDE":
        return pde.CahnHilliardPDE(interface_width=spec["interface_width"], bc_c=bc("bc_c"), bc_mu=bc("bc_mu"))
    if c == "KPZInterfacePDE":
        return pde.KPZInterfacePDE(nu=spec["nu"], lmbda=spec["lmbda"], bc=bc("bc"))
    if c == "WavePDE":
        return pde.WavePDE(speed=spec["speed"], bc=bc("bc"))
    if c == "PDE":
        kw = {}
        if spec.get("bc_ops"):
            kw["bc_ops"] = {k: build_bc(v, gspec) for k, v in spec["bc_ops"].items()}
        if spec.get("user_funcs"):
            # a user keeps ONE dictionary of helper functions and hands it to every equation he builds
            kw["user_funcs"] = user_funcs if user_funcs is not None else {"double": _double}
        return pde.PDE(dict(spec["rhs"]), bc=bc("bc"), consts=dict(spec.get("consts") or {}), **kw)
    raise ValueError(c)


def eq_num_fields(spec):
    if spec["cls"] == "WavePDE":
        return 2
    if spec["cls"] == "PDE":
        return len(spec["rhs"])
    return 1


# --------------------------------------------------------------------------------------
# object resolvers
# --------------------------------------------------------------------------------------


class Live:
    """Objects of the history process: created on first use, then kept (with all caches)."""

    fresh = False

    def __init__(self, header):
        self.h = header
        self.grids, self.fields, self.colls, self.eqs = {}, {}, {}, {}

    def gspec_of_field(self, fid):
        return self.h["grids"][self.h["fields"][fid]["grid"]]

    def grid(self, gid):
        if gid not in self.grids:
            self.grids[gid] = build_grid(self.h["grids"][gid])
        return self.grids[gid]

    def field(self, fid):
        if fid not in self.fields:
            fs = self.h["fields"][fid]
            grid = self.grid(fs["grid"])
            self.fields[fid] = field_cls(fs["rank"])(grid, initial_data(fs, grid), label=field_label(fs))
        return self.fields[fid]

    def coll(self, cid):
        return self.colls.get(cid)

    def linked_array(self, slot, shape):
        """User-owned arrays that boundary values are linked to (bc.link_value); they start with equal contents."""
        if not hasattr(self, "linked"):
            self.linked = {}
        key = (int(slot), tuple(shape))
        if key not in self.linked:
            self.linked[key] = np.full(shape, 1.0)
        return self.linked[key]

    def eq(self, eid, gid):
        # One equation object per (id, boundary-condition data): boundary conditions are written per axis
        # (periodic axes must be declared "periodic"), so the constructor arguments depend on the class and
        # periodicity of the grid; the object is re-used on every state for which those arguments coincide.
        gs = self.h["grids"][gid]
        es = self.h["eqs"][eid]
        bc_specs = [es[k] for k in ("bc", "bc_c", "bc_mu") if k in es] + list((es.get("bc_ops") or {}).values())
        if all(isinstance(b, str) and b.startswith("auto_") for b in bc_specs):
            # conditions given by name ("auto_periodic_neumann") suit every grid: ONE equation object for all of them,
            # also for grids that differ only in their periodicity
            key = eid + ":any-grid"
        else:
            key = eid + ":" + gs["cls"] + ":" + "".join("p" if p else "n" for p in grid_periodic(gs))
        if key not in self.eqs:
            if not hasattr(self, "user_funcs"):
                self.user_funcs = {"double": _double}
            self.eqs[key] = build_eq(self.h["eqs"][eid], self.h["grids"][gid], self.user_funcs)
        return self.eqs[key]

    def state(self, sid):
        return self.coll(sid) if sid.startswith("c") else self.field(sid)

    # -- what a reference needs to know about the current contents
    def snapshot(self, ids):
        snap = {"fields": {}, "colls": {}, "linked": {f"{k[0]}:{','.join(map(str, k[1]))}": np.array(v, copy=True)
                                                      for k, v in getattr(self, "linked", {}).items()}}
        for i in ids:
            if i.startswith("f"):
                snap["fields"][i] = np.array(self.field(i).data, copy=True)
            elif i.startswith("c") and self.coll(i) is not None:
                c = self.coll(i)
                snap["colls"][i] = {
                    "grid": self.colls_grid[i],
                    # the collection's own array is "the current contents" of a collection state
                    "members": [{"rank": int(m.rank), "label": m.label,
                                 "data": np.array(c.data[c._slices[j]], copy=True).reshape(m.data.shape)}
                                for j, m in enumerate(c)],
                }
        return snap

    colls_grid: dict = {}


class Fresh(Live):
    """Objects of the reference child: built anew from the specs and the current contents."""

    fresh = True

    def __init__(self, header, snap):
        super().__init__(header)
        self.snap = snap
        self.colls_grid = {k: v["grid"] for k, v in snap["colls"].items()}

    def field(self, fid):
        if fid not in self.fields:
            fs = self.h["fields"][fid]
            grid = self.grid(fs["grid"])
            self.fields[fid] = field_cls(fs["rank"])(grid, np.array(self.snap["fields"][fid], copy=True), label=field_label(fs))
        return self.fields[fid]

    def linked_array(self, slot, shape):
        key = f"{int(slot)}:{','.join(map(str, shape))}"
        cur = self.snap.get("linked", {}).get(key)
        return np.array(cur, copy=True) if cur is not None else np.full(shape, 1.0)

    def coll(self, cid):
        import pde

        if cid not in self.colls:
            cs = self.snap["colls"].get(cid)
            if cs is None:
                return None
            grid = self.grid(cs["grid"])
            members = [field_cls(m["rank"])(grid, np.array(m["data"], copy=True), label=m["label"]) for m in cs["members"]]
            self.colls[cid] = pde.FieldCollection(members)
        return self.colls[cid]


# --------------------------------------------------------------------------------------
# the operations
# --------------------------------------------------------------------------------------


def ids_of(op):
    out = []
    for k in ("f", "state", "f2", "out"):
        if isinstance(op.get(k), str):
            out.append(op[k])
    out.extend(op.get("fids", []))
    return out


def _val(x):
    """Plain, picklable value of a result."""
    import pde

    if isinstance(x, pde.FieldCollection):
        return np.array(x.data, copy=True)
    if hasattr(x, "data") and hasattr(x, "grid"):
        return np.array(x.data, copy=True)
    if isinstance(x, np.ndarray):
        return np.array(x, copy=True)
    if isinstance(x, (tuple, list)):
        return [_val(v) for v in x]
    if isinstance(x, (np.floating, np.integer, np.complexfloating)):
        return x.item()
    return x


def points_for(gspec, seed, n, outside=False):
    """Query points well inside the grid (membership at the boundary is ill-conditioned); with `outside` one more
    point clearly beyond the upper end of every axis, where the fill value is what interpolation returns."""
    rng = np.random.default_rng(seed)
    g = build_grid(gspec)
    lo = np.array([b[0] for b in g.axes_bounds], dtype=float)
    hi = np.array([b[1] for b in g.axes_bounds], dtype=float)
    u = rng.uniform(0.02, 0.98, size=(n, g.num_axes))
    pts = lo + u * (hi - lo)
    if outside:
        pts = np.concatenate([pts, (hi + 0.75 * (hi - lo))[None, :]])
    return pts


def perform(op, R: Live):
    """Execute one op against resolver R; returns {"val": ...} | {"exc": name} | SKIP."""
    import pde

    kind = op["op"]
    h = R.h
    try:
        if kind == "operator":
            fs = h["fields"][op["f"]]
            gspec = h["grids"][fs["grid"]]
            f = R.field(op["f"])
            bc = build_bc(op["bc"], gspec)
            kw = dict(op.get("kwargs") or {})
            via = op["via"]
            # time-dependent conditions take the time through `args`
            akw = {"args": {"t": float(op.get("t", 0.5))}} if "t" in str(op["bc"]) and "expression" in str(op["bc"]) else {}
            if via == "apply":
                return {"val": _val(f.apply_operator(op["name"], bc, backend=op["backend"], **akw, **kw))}
            if via == "method":
                meth = getattr(f, op["name"], None)
                if meth is None:
                    return SKIP
                return {"val": _val(meth(bc, backend=op["backend"], **akw, **kw))}
            if via == "apply_out":
                res = f.apply_operator(op["name"], bc, backend=op["backend"], **akw, **kw)
                out = res.copy()
                out.data = 0
                res2 = f.apply_operator(op["name"], bc, out=out, backend=op["backend"], **akw, **kw)
                return {"val": [_val(res2), res2 is out]}
            oper = f.grid.make_operator(op["name"], bc, backend=op["backend"], **kw)
            if via == "make_operator":
                return {"val": _val(oper(f.data, **akw))}
            out = np.zeros_like(oper(f.data, **akw))
            oper(f.data, out=out, **akw)
            return {"val": _val(out)}
        if kind == "linked_op":
            # an operator whose boundary value is linked to a user-owned array (bc.link_value); the value that counts is
            # the array's CURRENT content, whatever other arrays with equal content were linked to other conditions before
            from pde.grids.boundaries.local import ConstBCBase

            fs = h["fields"][op["f"]]
            if fs["rank"] != 0:
                return SKIP
            f = R.field(op["f"])
            # the history process keeps ONE conditions object per (slot, grid) and uses it again and again, as a user who
            # updates the linked array between evaluations would; the reference builds its conditions anew
            store = getattr(R, "linked_bcs", None)
            if store is None:
                store = R.linked_bcs = {}
            bkey = (int(op["slot"]), fs["grid"])
            bcs = None if getattr(R, "fresh", False) or not op.get("keep", True) else store.get(bkey)
            if bcs is None:
                bcs = f.grid.get_boundary_conditions(build_bc({"value": 0.0}, h["grids"][fs["grid"]]), rank=0)
                side = next((sd for ax in range(f.grid.num_axes) for sd in (bcs[ax].low, bcs[ax].high) if isinstance(sd, ConstBCBase)
                             and type(sd).__name__ == "DirichletBC"), None)
                if side is None:
                    return SKIP
                side.link_value(R.linked_array(op["slot"], tuple(side._shape_tensor) + tuple(side._shape_boundary)))
                store[bkey] = bcs
            if op["via"] == "ghost":
                g = f.copy()
                g._data_full[...] = 0  # (corner cells are never set by boundary conditions: not uninitialised memory, please)
                g.data = f.data
                g.set_ghost_cells(bcs)
                return {"val": _val(g._data_full)}
            oper = f.grid.make_operator(op["name"], bcs, backend=op["backend"])
            return {"val": _val(oper(f.data))}
        if kind == "insert":
            fs = h["fields"][op["f"]]
            gspec = h["grids"][fs["grid"]]
            f = R.field(op["f"]).copy()
            pts = points_for(gspec, op["pts_seed"], 1)
            amount = 1.5 if fs["rank"] == 0 else np.full((f.grid.dim,) * fs["rank"], 1.5)
            f.insert(pts[0], amount)
            return {"val": [_val(f), _val(f.integral)]}
        if kind == "interp":
            fs = h["fields"][op["f"]]
            gspec = h["grids"][fs["grid"]]
            f = R.field(op["f"])
            bc = None if op.get("bc") is None else build_bc(op["bc"], gspec)
            pts = points_for(gspec, op["pts_seed"], op["n"], outside=op.get("fill") is not None and bc is None)
            if op["via"] == "interpolate":
                return {"val": _val(f.interpolate(pts, bc=bc, fill=op.get("fill")))}
            if bc is not None:
                f.set_ghost_cells(bc, set_corners=True)
            itp = f.make_interpolator(fill=op.get("fill"), with_ghost_cells=bc is not None)
            return {"val": _val(itp(pts))}
        if kind == "interp_grid":
            fs = h["fields"][op["f"]]
            if fs["rank"] != 0:
                return SKIP
            f = R.field(op["f"])
            g2 = R.grid(op["g2"])
            gspec = h["grids"][fs["grid"]]
            bc = None if op.get("bc") is None else build_bc(op["bc"], gspec)
            return {"val": _val(f.interpolate_to_grid(g2, bc=bc, fill=op.get("fill", 0.0)))}
        if kind == "rate" or kind == "solve":
            es = h["eqs"][op["eq"]]
            sid = op["state"]
            nf = eq_num_fields(es)
            any_rank = bool(es.get("any_rank"))
            if sid.startswith("f"):
                fs = h["fields"][sid]
                if nf != 1 or (fs["rank"] != 0 and not any_rank) or fs["dtype"] != "float":
                    return SKIP
                gid = fs["grid"]
            else:
                c = R.coll(sid)
                if c is None or nf != len(c) or (any(m.rank != 0 for m in c) and not any_rank) or np.iscomplexobj(c.data):
                    return SKIP
                gid = R.colls_grid[sid]
            gspec = h["grids"][gid]
            if es["cls"] == "KPZInterfacePDE" and gspec["cls"] not in ("UnitGrid", "CartesianGrid"):
                return SKIP
            state = R.state(sid)
            eq = R.eq(op["eq"], gid)
            if kind == "rate":
                if op["via"] == "evolution_rate":
                    return {"val": _val(eq.evolution_rate(state, op["t"]))}
                rhs = eq.make_pde_rhs(state, backend=op["backend"])
                return {"val": _val(rhs(np.array(state.data, copy=True), op["t"]))}
            res, info = eq.solve(state, t_range=op["steps"] * op["dt"], dt=op["dt"], solver=op["solver"],
                                 backend=op["backend"], tracker=None, ret_info=True, **(op.get("kw") or {}))
            return {"val": [_val(res), int(info["solver"]["steps"]), float(info["controller"]["t_final"])]}
        if kind == "poisson":
            fs = h["fields"][op["f"]]
            if fs["rank"] != 0 or fs["dtype"] != "float":
                return SKIP
            gspec = h["grids"][fs["grid"]]
            f = R.field(op["f"])
            return {"val": _val(pde.solve_poisson_equation(f, bc=build_bc(op["bc"], gspec)))}
        if kind == "measure":
            f = R.field(op["f"])
            g = f.grid
            return {"val": [_val(f.integral), _val(f.average), _val(f.magnitude), _val(np.asarray(g.cell_volumes, dtype=float)),
                            _val(g.volume), _val(f.fluctuations)]}
        if kind == "bvals":
            fs = h["fields"][op["f"]]
            gspec = h["grids"][fs["grid"]]
            f = R.field(op["f"])
            ax = op["axis"] % len(gspec["shape"])
            return {"val": _val(f.get_boundary_values(ax, bool(op["upper"]), build_bc(op["bc"], gspec)))}
        if kind == "from_expr":
            g = R.grid(op["g"])
            return {"val": _val(pde.ScalarField.from_expression(g, op["expr"]))}
        raise ValueError(kind)
    except Exception as err:  # noqa: BLE001 - the value of this op is "it raises"
        return {"exc": type(err).__name__, "msg": str(err)[:200]}


def perform_fresh(request):
    """Entry point in the pristine reference child."""
    R = Fresh(request["header"], request["snap"])
    _apply_config(request["header"].get("config") or {})
    return perform(request["op"], R)


def _apply_config(cfg):
    import pde

    for k, v in cfg.items():
        pde.config[k] = v
