"""controller-sim: py-pde's run loop (Controller + TrackerCollection + trackers + interrupt
timers + solvers + backends) under a simulated wall clock with seeded tracker schedules
and seeded stop faults.  Serves C07 and C08 (DESIGN.md 4.3, 4.4).

A plan is JSON.  Execution performs, in one forked child:
  R0  the run with tracker=None                                    (C07 reference)
  REF the single-step reference trajectory from the solver's own stepper
  H0  the run with the plan's trackers, nothing armed              (fault free)
  H1  the same run with stop faults / natural stops armed          (C08 only)
and evaluates the oracles of the requested property over the recorded histories.
"""

from __future__ import annotations

import copy
import decimal
import io
import math

import numpy as np

from . import clock as simclock
from .core import EventLog, digest_of, fbits, violation

EPS = float(np.finfo(float).eps)
FIXED_SOLVERS = ("euler", "runge-kutta", "implicit", "crank-nicolson", "adams-bashforth", "milstein")
ADAPTIVE_SOLVERS = ("euler", "runge-kutta", "scipy")
READONLY_KINDS = ("rec", "rec1", "data", "storage", "print", "progress", "consistency", "walltime", "material",
                  "steady", "maxruntime")


# ======================================================================================
# plan generation (pure function of the PRNG)
# ======================================================================================


def _pick(rng, seq):
    return seq[rng.randrange(len(seq))]


def _gen_interrupt(rng, dt, t_start, t_end, allow_default, others_times):
    T = max(t_end - t_start, dt)
    r = rng.random()
    if allow_default and r < 0.12:
        return {"type": "default"}
    if r < 0.50:
        mode = rng.randrange(12)
        if mode == 0:
            D = dt
        elif mode == 1:
            D = dt * rng.choice([2, 3, 4, 7])
        elif mode == 2:
            D = dt * rng.choice([1.5, 2.5, 3.5, 0.5])
        elif mode == 3:
            D = dt * math.pi
        elif mode == 4:
            D = dt * math.e / 2
        elif mode == 5:
            D = dt * rng.uniform(0.05, 1.0)
        elif mode == 6:
            D = dt * rng.uniform(1.0, 5.0)
        elif mode == 7:
            D = dt * rng.uniform(1.0, 1.1)
        elif mode == 8:
            D = T / rng.randint(1, 9)
        elif mode == 9:
            D = float(decimal.Decimal(repr(dt)) * rng.choice([1, 2, 3, 5, 10]))
        elif mode == 10:
            D = dt * (rng.randint(1, 6) + rng.choice([1e-9, -1e-9, 1e-13, 0.5 + 1e-12, 0.5 - 1e-12]))
        else:
            D = T * rng.uniform(0.3, 2.5)
        D = max(D, dt * 0.02)
        spec = {"type": "const", "dt": D}
        q = rng.random()
        if q < 0.12:
            spec["t_start"] = t_start + dt * rng.randint(0, 8)
        elif q < 0.22:
            spec["t_start"] = t_start + T * rng.uniform(-0.5, 1.2)
        elif q < 0.26:
            spec["t_start"] = t_start - dt * rng.uniform(0, 3)
        if rng.random() < 0.15 and "t_start" not in spec and float(D).is_integer():
            spec["as_number"] = True  # pass the bare number to the tracker (parse_interrupt)
        return spec
    if r < 0.72:
        n = rng.randint(0, 8)
        pts = []
        nlat = max(1, int(round(T / dt)))
        for _ in range(n):
            m = rng.randrange(9)
            k = rng.randint(0, nlat + 1)
            lat = t_start + k * dt
            if m == 0:
                pts.append(lat)
            elif m == 1:
                pts.append(float(np.nextafter(lat, math.inf)))
            elif m == 2:
                pts.append(float(np.nextafter(lat, -math.inf)))
            elif m == 3:
                pts.append(lat + 0.5 * dt)
            elif m == 4:
                pts.append(t_start + T * rng.random())
            elif m == 5:
                pts.append(t_start - dt * rng.uniform(0, 2))
            elif m == 6:
                pts.append(t_end + dt * rng.uniform(0, 2))
            elif m == 7 and others_times:
                pts.append(_pick(rng, others_times))
            else:
                pts.append(lat + dt * rng.uniform(-0.5, 0.5))
        pts = sorted(set(pts))
        return {"type": "fixed", "times": pts}
    if r < 0.82:
        return {"type": "log", "dt_initial": dt * rng.choice([1, 1.5, 0.7, 3, rng.uniform(0.3, 4)]),
                "factor": rng.choice([1.0, 1.1, 1.5, 2.0, 3.0]),
                **({"t_start": t_start + dt * rng.randint(0, 5)} if rng.random() < 0.2 else {})}
    if r < 0.90:
        return {"type": "geom", "scale": dt * rng.choice([1, 0.5, 2, rng.uniform(0.3, 4)]),
                "factor": rng.choice([1.3, 2.0, 3.0, 10.0]), "as_string": rng.random() < 0.3}
    return {"type": "realtime", "duration": rng.choice([1e-3, 0.05, 1.0, 60.0]),
            "as_string": rng.random() < 0.3}


def gen_plan(rng, tier: str, idx: int, prop: str) -> dict:
    with_faults = prop == "C08"
    big = tier == "thorough"
    adaptive = with_faults and rng.random() < 0.22
    solver = _pick(rng, ADAPTIVE_SOLVERS) if adaptive else _pick(rng, FIXED_SOLVERS)
    backend = _pick(rng, ("numpy", "numba"))
    # -- time axis
    dt_mode = rng.randrange(5)
    if dt_mode == 0:
        dt = _pick(rng, (0.1, 0.01, 0.001, 0.2, 0.3, 0.05, 0.7))
    elif dt_mode == 1:
        dt = _pick(rng, (1.0, 0.5, 0.25, 0.125, 2.0))
    elif dt_mode == 2:
        dt = 10 ** rng.uniform(-3, 0.3)
    elif dt_mode == 3:
        dt = rng.uniform(0.01, 1.0)
    else:
        dt = _pick(rng, (1 / 3, 1 / 7, math.pi / 10, 0.1 + 1e-17, 1e-2))
    ts_mode = rng.randrange(6)
    if ts_mode <= 2:
        t_start = 0.0
    elif ts_mode == 3:
        t_start = _pick(rng, (1.0, 0.1, 10.0, 100.0, 0.3))
    elif ts_mode == 4:
        t_start = -_pick(rng, (1.0, 0.5, 3.0, 0.7))
    else:
        t_start = rng.uniform(-5, 50)
    nmax = (2000 if big else 400) if rng.random() < 0.05 else (60 if rng.random() < 0.8 else 200)
    N = rng.randint(0, 3) if rng.random() < 0.08 else rng.randint(1, nmax)
    if adaptive:
        # the cost of an adaptive run is not N: a tight tolerance or a small tracker interval multiplies it (194 000 Euler steps,
        # 28 000 solve_ivp segments were seen, i.e. 15-60 s for one plan and a per-plan timeout under load) - keep ranges short
        N = min(N, 40)
    em = rng.randrange(10)
    if em <= 5 or adaptive and em <= 7:
        t_end_spec = {"mode": "n_steps", "n": N}
        t_end = t_start + N * dt
    elif em <= 6:
        # decimal literal: what a user types, e.g. dt=0.1, t_end=0.3
        t_end = float(decimal.Decimal(repr(t_start)) + N * decimal.Decimal(repr(dt)))
        t_end_spec = {"mode": "decimal", "n": N}
    else:
        frac = _pick(rng, (0.5, 0.3, 0.7, 0.499999, 0.500001, 1e-7, 0.999999, rng.random()))
        t_end = t_start + (N + frac) * dt
        t_end_spec = {"mode": "frac", "n": N, "frac": frac}
    # -- equation (client code of the run loop)
    ek = rng.random()
    if ek < 0.8:
        mag = rng.uniform(0.01, 0.3) / dt
        sign = -1 if rng.random() < 0.7 else 1
        if not adaptive and rng.random() < 0.2:
            a = [sign * mag * 0.6, mag * rng.uniform(-0.6, 0.6)]
        else:
            a = [sign * mag, 0.0]
        if a[0] > 0:
            a[0] = min(a[0], 3.0 / (max(N, 1) * dt))
        if adaptive:
            a = [-abs(a[0]), 0.0]
        nonaut = rng.random() < 0.3
        eq = {"kind": "linear", "a": a, "b": rng.uniform(-1, 1) if nonaut else 0.0,
              "w": rng.uniform(0.1, 3) / dt if nonaut else 0.0, "cells": _pick(rng, (1, 2, 3)),
              "u0_seed": rng.randrange(1 << 30)}
        if rng.random() < 0.2 and a[1] == 0.0 and not adaptive:
            # a post-step hook with memory: its data must be carried across the segments a run is cut into
            eq["hook"] = {"period": rng.randint(2, 5), "factor": rng.choice([0.5, 0.9, 1.1])}
    else:
        eq = {"kind": "diffusion", "cells": _pick(rng, (4, 6)), "D": rng.uniform(0.02, 0.2) / dt,
              "bc": _pick(rng, ("auto_periodic_neumann", "auto_periodic_dirichlet")),
              "periodic": rng.random() < 0.4, "u0_seed": rng.randrange(1 << 30)}
    if solver == "milstein" and eq["kind"] != "diffusion":
        solver = "euler"  # the Milstein solver wants an equation with the noise-variance interface (the library classes)
    # -- trackers
    ntr = _pick(rng, (0, 1, 1, 2, 2, 3, 3, 4, 5))
    if with_faults and ntr == 0:
        ntr = 1
    trackers = []
    others_times = []
    for _ in range(ntr):
        kind = _pick(rng, ("rec", "rec", "rec", "rec1", "data", "storage", "storage", "print", "progress",
                           "consistency", "walltime", "material", "steady", "maxruntime"))
        if kind == "material" and eq["kind"] != "diffusion":
            kind = "rec"
        allow_default = kind in ("progress", "consistency", "steady")
        itr = _gen_interrupt(rng, dt, t_start, t_end, allow_default, others_times)
        if itr["type"] == "fixed":
            others_times.extend(itr["times"])
        elif itr["type"] == "const":
            others_times.extend(itr.get("t_start", t_start) + k * itr["dt"] for k in range(1, 4))
        tr = {"kind": kind, "interrupt": itr}
        if trackers and rng.random() < 0.08:
            # hand the *same* interrupt object to two trackers (py-pde must keep their schedules independent)
            k = rng.randrange(len(trackers))
            if trackers[k]["interrupt"]["type"] not in ("default",) and not trackers[k]["interrupt"].get("as_number") \
                    and not trackers[k]["interrupt"].get("as_string"):
                tr["interrupt"] = copy.deepcopy(trackers[k]["interrupt"])
                tr["share_with"] = k
        trackers.append(tr)
    use_auto = rng.random() < 0.06 and not with_faults
    if use_auto or any(tr["interrupt"]["type"] in ("realtime", "default") for tr in trackers):
        # wall-clock driven schedules can shrink to their floor of 1e-3 simulation time units
        # under clock jumps: keep the simulated range short so that a run stays a few thousand rounds
        n_cap = max(1, int((0.3 if solver == "scipy" else 3.0) / dt))  # (every round of the scipy solver is a solve_ivp call)
        if N > n_cap:
            N = n_cap
            spec_mode = t_end_spec["mode"]
            t_end_spec["n"] = N
            if spec_mode == "n_steps":
                t_end = t_start + N * dt
            elif spec_mode == "decimal":
                t_end = float(decimal.Decimal(repr(t_start)) + N * decimal.Decimal(repr(dt)))
            else:
                t_end = t_start + (N + t_end_spec["frac"]) * dt
    # -- clock
    clock = {"profile": _pick(rng, simclock.PROFILES), "seed": rng.randrange(1 << 30)}
    plan = {
        "engine": "controller-sim", "prop": prop, "solver": solver, "backend": backend, "adaptive": adaptive,
        "tolerance": 10 ** rng.uniform(-5, -2) if adaptive else None,
        "dt": dt, "t_start": t_start, "t_end": t_end, "t_end_spec": t_end_spec, "eq": eq,
        "trackers": trackers, "use_auto": use_auto, "clock": clock,
        "entry": "controller" if (adaptive or rng.random() < 0.5) else "solve",
        "t_range_scalar": bool(t_start == 0.0 and rng.random() < 0.3),
        "faults": [],
    }
    if with_faults and trackers:
        nf = _pick(rng, (0, 1, 1, 1, 2, 2, 3))
        for _ in range(nf):
            j = rng.randrange(len(trackers))
            kq = rng.random()
            if kq < 0.12 and eq["kind"] == "linear" and eq["cells"] >= 2 and not adaptive \
                    and solver in ("euler", "runge-kutta", "adams-bashforth") \
                    and trackers[j]["kind"] in ("rec", "rec1") \
                    and not any(t["kind"] == "steady" for t in trackers):
                kind = "nan"
            elif kq < 0.2 and trackers[j]["kind"] in ("steady", "maxruntime"):
                kind = "arm"
            else:
                kind = _pick(rng, ("StopIteration", "FinishedSimulation"))
            at = _pick(rng, ({"at": "first"}, {"at": "last"}, {"at": "shared"}, {"at": "shared"},
                             {"at": "frac", "f": rng.random()}, {"at": "frac", "f": rng.random()},
                             {"at": "index", "m": rng.randint(0, 6)}))
            plan["faults"].append({"tracker": j, "kind": kind, "msg": _pick(rng, (None, "", "stop-%d" % rng.randrange(100))),
                                   **at})
    # -- an earlier use of the same objects: the equation, the initial state and (entry 'controller') the solver -
    # sometimes the controller - have already served another run with another range and step.  (Drawn last so that
    # the rest of a plan is the same as before this element existed.)
    if rng.random() < 0.25:
        plan["prior"] = {"n": rng.randint(1, 7), "dt_factor": _pick(rng, (1.0, 0.5, 0.25, 1.0, 0.37)),
                         "t_start": _pick(rng, (0.0, t_start, t_start + 1.0, -1.0, t_end)),
                         "tracker": rng.random() < 0.5, "same_solver": rng.random() < 0.7,
                         "same_controller": rng.random() < 0.3, "frac": _pick(rng, (0.0, 0.0, 0.5, 0.25))}
    return plan


# ======================================================================================
# building the system under simulation from a plan
# ======================================================================================


def _make_equation(spec):
    import pde
    from pde.pdes.base import PDEBase

    if spec["kind"] == "diffusion":
        grid = pde.UnitGrid([spec["cells"]], periodic=spec["periodic"])
        eq = pde.DiffusionPDE(diffusivity=spec["D"], bc=spec["bc"])
        u0 = np.random.default_rng(spec["u0_seed"]).uniform(0.5, 1.5, size=grid.shape)
        return eq, pde.ScalarField(grid, u0, label="u0 of the caller"), True

    a = complex(*spec["a"]) if spec["a"][1] != 0.0 else float(spec["a"][0])
    b, w = float(spec["b"]), float(spec["w"])

    class LinearEq(PDEBase):
        """du/dt = a*u + b*cos(w*t): client code of the run loop."""

        complex_valued = isinstance(a, complex)

        def evolution_rate(self, state, t=0):
            res = state.copy()
            res.data = a * state.data + b * np.cos(w * t)
            return res

        def make_evolution_rate(self, state, backend):
            def rhs(data, t):
                return a * data + b * np.cos(w * t)

            return rhs

    hook = spec.get("hook")
    if hook:
        period, factor = int(hook["period"]), float(hook["factor"])

        def make_post_step_hook(self, state, backend="numpy"):
            def post_step_hook(state_data, t, post_step_data):
                post_step_data += 1
                if int(post_step_data) % period == 0:
                    state_data *= factor
                return state_data, post_step_data

            return post_step_hook, 0.0

        LinearEq.make_post_step_hook = make_post_step_hook

    grid = pde.UnitGrid([spec["cells"]])
    u0 = np.random.default_rng(spec["u0_seed"]).uniform(0.5, 1.5, size=grid.shape)
    return LinearEq(), pde.ScalarField(grid, u0, label="u0 of the caller"), b == 0.0


def _make_interrupt(spec):
    import importlib

    I = importlib.import_module("pde.trackers.interrupts")
    ty = spec["type"]
    if ty == "default":
        return None
    if ty == "const":
        if spec.get("as_number"):
            v = spec["dt"]
            return int(v) if float(v).is_integer() else v
        return I.ConstantInterrupts(spec["dt"], t_start=spec.get("t_start"))
    if ty == "fixed":
        return I.FixedInterrupts(list(spec["times"])) if spec["times"] else I.FixedInterrupts(np.array([], dtype=float))
    if ty == "log":
        return I.LogarithmicInterrupts(spec["dt_initial"], spec["factor"], t_start=spec.get("t_start"))
    if ty == "geom":
        if spec.get("as_string"):
            return f"geometric({spec['scale']!r}, {spec['factor']!r})"
        return I.GeometricInterrupts(spec["scale"], spec["factor"])
    if ty == "realtime":
        if spec.get("as_string"):
            d = spec["duration"]
            return "0:00:%02d" % min(59, int(d)) if 1 <= d < 60 else ("0:01:00" if d == 60 else I.RealtimeInterrupts(d))
        return I.RealtimeInterrupts(spec["duration"])
    raise ValueError(ty)


class _Rec:
    """History of one controller run."""

    def __init__(self, ntr):
        self.seq = 0
        self.calls = []  # dicts: j, m, t, seq, snap(bytes), snap_after(bytes|None), raised
        self.init = [0] * ntr
        self.fin = [0] * ntr
        self.fin_after_calls = [None] * ntr
        self.ncalls = [0] * ntr
        self.stepper = []  # (t_in, t_target, t_out, steps_after, state bytes)
        self.storage_sessions = {}
        self.fired = []  # faults that fired: (j, m, kind)
        self.first_raise_seq = None
        self.dt_seen = 0.0  # largest (adaptive) time step the solver reported


def _build_trackers(plan, rec: _Rec, armed: bool, faults_resolved, state_ref):
    """Create the plan's tracker objects and instrument them (instance level)."""
    import pde
    from pde.trackers.base import FinishedSimulation

    objs, extras, itr_objs = [], [], []
    for j, tr in enumerate(plan["trackers"]):
        kind = tr["kind"]
        itr = _make_interrupt(tr["interrupt"])
        sw = tr.get("share_with")
        if sw is not None and sw < len(itr_objs) and not isinstance(itr_objs[sw], (int, float, str, type(None))) \
                and plan["trackers"][sw]["interrupt"] == tr["interrupt"]:
            itr = itr_objs[sw]  # the very same object
        itr_objs.append(itr)
        kw = {} if itr is None else {"interrupts": itr}
        extra = {}
        if kind in ("rec", "rec1"):
            if itr is None:
                kw = {"interrupts": 1}

            def make_cb(j=j, two=kind == "rec"):
                def cb2(state, t):
                    _rec_callback(j, state, t)

                def cb1(state):
                    _rec_callback(j, state, None)

                return cb2 if two else cb1

            def _rec_callback(j, state, t, _faults=faults_resolved):
                m = rec.ncalls[j] - 1  # the instrumented handle has counted this call already
                for f in _faults:
                    if f["tracker"] == j and f["m"] == m and armed:
                        if f["kind"] == "nan":
                            state.data[(0,) * state.data.ndim] = np.nan
                            rec.fired.append((j, m, "nan"))
                        elif f["kind"] in ("StopIteration", "FinishedSimulation") and f.get("via") == "callback":
                            rec.fired.append((j, m, f["kind"]))
                            exc = StopIteration if f["kind"] == "StopIteration" else FinishedSimulation
                            raise exc(f["msg"]) if f["msg"] is not None else exc()

            obj = pde.CallbackTracker(make_cb(), **kw)
        elif kind == "data":
            if itr is None:
                kw = {"interrupts": 1}
            obj = pde.DataTracker(lambda state, t: float(np.real(state.data).sum()), **kw)
        elif kind == "storage":
            if itr is None:
                kw = {"interrupts": 1}
            storage = pde.MemoryStorage()
            obj = storage.tracker(**kw)
            extra["storage"] = storage
            sess = rec.storage_sessions.setdefault(j, {"start": 0, "end": 0})
            _sw, _ew = storage.start_writing, storage.end_writing

            def start_writing(field, info=None, _sw=_sw, sess=sess):
                sess["start"] += 1
                return _sw(field, info)

            def end_writing(_ew=_ew, sess=sess):
                sess["end"] += 1
                return _ew()

            storage.start_writing = start_writing
            storage.end_writing = end_writing
        elif kind == "print":
            if itr is None:
                kw = {"interrupts": 1}
            extra["stream"] = io.StringIO()
            obj = pde.PrintTracker(stream=extra["stream"], **kw)
        elif kind == "progress":
            obj = pde.ProgressTracker(**kw)
        elif kind == "consistency":
            obj = pde.ConsistencyTracker(**kw)
        elif kind == "walltime":
            if itr is None:
                kw = {"interrupts": 1}
            obj = pde.WalltimeTracker(**kw)
        elif kind == "material":
            if itr is None:
                kw = {"interrupts": 1}
            obj = pde.MaterialConservationTracker(atol=1e300, rtol=1e300, **kw)
        elif kind == "steady":
            is_armed = armed and any(f["tracker"] == j and f["kind"] == "arm" for f in faults_resolved)
            obj = pde.SteadyStateTracker(atol=(1e-3 if is_armed else -math.inf), rtol=(1e-2 if is_armed else 0.0), **kw)
        elif kind == "maxruntime":
            if itr is None:
                kw = {"interrupts": 1}
            is_armed = armed and any(f["tracker"] == j and f["kind"] == "arm" for f in faults_resolved)
            obj = pde.MaxRuntimeTracker(max_runtime=(30.0 if is_armed else 1e18), **kw)
        else:
            raise ValueError(kind)
        objs.append(obj)
        extras.append(extra)

    # instance-level instrumentation: record, then inject
    for j, obj in enumerate(objs):
        _instrument(obj, j, rec, armed, faults_resolved)
    return objs, extras


def _instrument(obj, j, rec: _Rec, armed, faults):
    from pde.trackers.base import FinishedSimulation

    o_init, o_handle, o_fin = obj.initialize, obj.handle, obj.finalize

    def initialize(field, info=None):
        rec.init[j] += 1
        return o_init(field, info)

    def handle(field, t):
        m = rec.ncalls[j]
        rec.ncalls[j] += 1
        rec.seq += 1
        entry = {"j": j, "m": m, "t": float(t), "seq": rec.seq, "snap": np.array(field.data, copy=True).tobytes(),
                 "raised": None, "after_fin": rec.fin[j] > 0}
        rec.calls.append(entry)
        try:
            o_handle(field, t)
        except StopIteration as err:
            entry["raised"] = (type(err).__name__, getattr(err, "value", None))
            entry["snap_after"] = np.array(field.data, copy=True).tobytes()
            if rec.first_raise_seq is None:
                rec.first_raise_seq = rec.seq
            raise
        entry["snap_after"] = np.array(field.data, copy=True).tobytes()
        if armed:
            for f in faults:
                if f["tracker"] == j and f["m"] == m and f["kind"] in ("StopIteration", "FinishedSimulation") \
                        and f.get("via") != "callback":
                    rec.fired.append((j, m, f["kind"]))
                    exc = StopIteration if f["kind"] == "StopIteration" else FinishedSimulation
                    err = exc(f["msg"]) if f["msg"] is not None else exc()
                    entry["raised"] = (type(err).__name__, getattr(err, "value", None))
                    if rec.first_raise_seq is None:
                        rec.first_raise_seq = rec.seq
                    raise err

    def finalize(info=None):
        rec.fin[j] += 1
        rec.fin_after_calls[j] = rec.ncalls[j]
        return o_fin(info)

    obj.initialize = initialize
    obj.handle = handle
    obj.finalize = finalize


def _run_once(plan, *, trackers_mode: str, faults_resolved=(), probe_stepper=True):
    """One controller run.  trackers_mode: 'none' | 'h0' | 'h1'."""
    import pde
    from pde.solvers.base import SolverBase
    from pde.solvers.controller import Controller

    # bounded liveness: every iteration of the run loop makes at least one step and reads the clock
    # twice (+ at most 2 reads per tracker); a terminating fixed-step run needs <= N+2 iterations
    ntr_all = len(plan["trackers"]) + 2
    iters = 3 * (plan["t_end_spec"]["n"] + 8) if not plan["adaptive"] else 400000
    clk = simclock.SimClock({**plan["clock"], "max_reads": iters * (2 + 2 * ntr_all) + 64})
    simclock.install(clk)
    eq, state0, autonomous = _make_equation(plan["eq"])
    before = (state0.data.tobytes(), str(state0.data.dtype), state0.label, state0._data_full.tobytes())
    rec = _Rec(len(plan["trackers"]))
    if trackers_mode == "none":
        tr_arg, objs, extras = None, [], []
    else:
        objs, extras = _build_trackers(plan, rec, trackers_mode == "h1", list(faults_resolved), state0)
        tr_arg = list(objs)
        if plan.get("use_auto"):
            tr_arg = ["progress", "consistency", *tr_arg]
    t_range = plan["t_end"] if plan.get("t_range_scalar") and plan["t_start"] == 0.0 else (plan["t_start"], plan["t_end"])
    kw = {}
    if plan["solver"] in ("euler", "runge-kutta", "explicit_mpi"):
        kw["adaptive"] = bool(plan["adaptive"])
        if plan["adaptive"]:
            kw["tolerance"] = plan["tolerance"]
    if plan["solver"] in ("implicit", "crank-nicolson"):
        kw["maxerror"] = 1e-10
        kw["maxiter"] = 500
    out = {"rec": rec, "clock": clk, "extras": extras, "objs": objs, "exception": None, "autonomous": autonomous,
           "state0": state0, "before": before}
    prior = plan.get("prior")
    if prior:
        dt_p = plan["dt"] * prior["dt_factor"]
        range_p = (prior["t_start"], prior["t_start"] + (prior["n"] + prior["frac"]) * dt_p)

        def prior_trackers():
            return [pde.DataTracker(lambda f, t: float(t), interrupts=1.7 * dt_p)] if prior["tracker"] else None
    try:
        if plan["entry"] == "solve":
            if prior:
                simclock.install(simclock.SimClock({"profile": "steady", "seed": 1, "max_reads": 100000}))
                eq.solve(state0, range_p, dt=dt_p, tracker=prior_trackers(), solver=plan["solver"], backend=plan["backend"], **kw)
                simclock.install(clk)
            res, info = eq.solve(state0, t_range, dt=plan["dt"], tracker=tr_arg, solver=plan["solver"],
                                 backend=plan["backend"], ret_info=True, **kw)
            out["info"] = info
            out["solver_info"] = info["solver"]
        else:
            solver = SolverBase.from_name(plan["solver"], pde=eq, backend=plan["backend"], **kw)
            if probe_stepper:
                o_make = solver.make_stepper

                def make_stepper(state, dt=None):
                    stepper = o_make(state=state, dt=dt)

                    def probed(state, t_a, t_b):
                        t_out = stepper(state, t_a, t_b)
                        rec.stepper.append((float(t_a), float(t_b), float(t_out), int(solver.info["steps"]),
                                            np.array(state.data, copy=True).tobytes()))
                        rec.dt_seen = max(rec.dt_seen, float(solver.info.get("dt") or 0.0))
                        return t_out

                    return probed

                solver.make_stepper = make_stepper
            controller = None
            if prior:
                from pde.trackers.base import TrackerCollection

                simclock.install(simclock.SimClock({"profile": "steady", "seed": 1, "max_reads": 100000}))
                solver_p = solver if prior["same_solver"] else SolverBase.from_name(plan["solver"], pde=eq, backend=plan["backend"], **kw)
                controller_p = Controller(solver_p, t_range=range_p, tracker=prior_trackers())
                controller_p.run(state0, dt_p)
                rec.stepper.clear()
                rec.dt_seen = 0.0
                simclock.install(clk)
                if prior["same_solver"] and prior["same_controller"]:
                    controller = controller_p
                    controller.t_range = t_range
                    controller.trackers = TrackerCollection.from_data(tr_arg)
            if controller is None:
                controller = Controller(solver, t_range=t_range, tracker=tr_arg)
            res = controller.run(state0, plan["dt"])
            out["info"] = controller.diagnostics
            out["solver_info"] = solver.info
        out["result"] = res
    except Exception as err:  # noqa: BLE001 - the run itself raised
        out["exception"] = f"{type(err).__name__}: {err}"
        out["no_progress"] = isinstance(err, simclock.StepCapExceeded)
    finally:
        simclock.uninstall()
    out["after"] = (state0.data.tobytes(), str(state0.data.dtype), state0.label, state0._data_full.tobytes())
    return out


def _reference_trajectory(plan, n_steps: int):
    """States after 0..n_steps applications of the solver's own one-step map."""
    import pde  # noqa: F401
    from pde.solvers.base import SolverBase

    eq, state0, autonomous = _make_equation(plan["eq"])
    kw = {}
    if plan["solver"] in ("euler", "runge-kutta", "explicit_mpi"):
        kw["adaptive"] = False
    if plan["solver"] in ("implicit", "crank-nicolson"):
        kw["maxerror"] = 1e-10
        kw["maxiter"] = 500
    solver = SolverBase.from_name(plan["solver"], pde=eq, backend=plan["backend"], **kw)
    state = state0.copy(dtype=complex) if getattr(eq, "complex_valued", False) else state0.copy()
    stepper = solver.make_stepper(state=state, dt=plan["dt"])
    traj = [np.array(state.data, copy=True)]
    dt, t0 = plan["dt"], plan["t_start"]
    for k in range(n_steps):
        t_k = t0 + k * dt
        t_ret = stepper(state, t_k, t_k + dt)
        traj.append(np.array(state.data, copy=True))
        if not abs(t_ret - (t_k + dt)) <= 4 * EPS * max(abs(t_k + dt), dt):
            raise OneStepMapBroken(f"asked to advance one step of dt={dt!r} from t={t_k!r} to {t_k + dt!r}, the stepper of solver "
                                   f"{plan['solver']!r} (backend {plan['backend']}) returned t={t_ret!r}")
        if solver.info["steps"] != k + 1:
            raise OneStepMapBroken(f"after {k + 1} single-step calls the solver {plan['solver']!r} (backend {plan['backend']}) "
                                   f"reports {solver.info['steps']} steps")
    return traj


class OneStepMapBroken(Exception):
    """The solver's own stepper does not perform 'one step of dt' when asked for exactly that (outside any controller)."""


# ======================================================================================
# helpers for the oracles
# ======================================================================================


def _tbound(plan, n):
    return 8 * (abs(n) + 1) * EPS * max(abs(plan["t_start"]), abs(plan["t_end"]), plan["dt"], 1e-300)


def _rounds(calls):
    out = []
    for c in calls:
        if out and out[-1]["t"] == c["t"] and out[-1]["calls"][-1]["seq"] == c["seq"] - 1:
            out[-1]["calls"].append(c)
        else:
            out.append({"t": c["t"], "calls": [c]})
    return out


_NA_ATOL = [0.0]  # absolute tolerance for non-autonomous equations, set per plan by execute()


def _same(a: np.ndarray, b: np.ndarray, exact: bool, rtol=1e-11) -> bool:
    if a.shape != b.shape:
        return False
    if exact:
        return a.tobytes() == b.tobytes() or bool(np.array_equal(a, b, equal_nan=True))
    return bool(np.allclose(a, b, rtol=rtol, atol=_NA_ATOL[0], equal_nan=True))


def _nonautonomous_atol(plan) -> float:
    """The forcing b*cos(w*t) is evaluated at segment-accumulated times in a run and at
    t_start + k*dt in the reference; a time difference d changes each step by dt*|b|*w*d."""
    eq = plan["eq"]
    if eq["kind"] != "linear" or eq["b"] == 0.0:
        return 0.0
    n = plan["t_end_spec"]["n"] + 2
    T = n * plan["dt"]
    growth = math.exp(max(0.0, eq["a"][0]) * T)
    return 50 * T * abs(eq["b"]) * abs(eq["w"]) * _tbound(plan, n) * growth + 1e-300


def _resolve_faults(plan, h0_rec: _Rec):
    """Turn symbolic fault positions into (tracker, call index) using the fault-free history."""
    out = []
    if not plan["trackers"]:
        return out
    rounds = _rounds(h0_rec.calls)
    for f in plan["faults"]:
        j = f["tracker"] % max(1, len(plan["trackers"]))
        n_j = sum(1 for c in h0_rec.calls if c["j"] == j)
        at = f.get("at", "index")
        if at == "first":
            m = 0
        elif at == "last":
            m = max(0, n_j - 1)
        elif at == "frac":
            m = int(f["f"] * n_j) if n_j else 0
        elif at == "shared":
            m = None
            for r in rounds[1:] + rounds[:1]:
                js = [c["j"] for c in r["calls"]]
                if len(js) >= 2 and j in js:
                    m = next(c["m"] for c in r["calls"] if c["j"] == j)
                    break
            if m is None:
                m = min(1, max(0, n_j - 1))
        else:
            m = int(f.get("m", 0))
        kind = f["kind"]
        via = "callback" if plan["trackers"][j]["kind"] in ("rec", "rec1") and kind in ("StopIteration", "FinishedSimulation") and (j + m) % 2 == 0 else "after"
        if kind == "nan" and plan["trackers"][j]["kind"] not in ("rec", "rec1"):
            kind = "StopIteration"
        if kind == "arm" and plan["trackers"][j]["kind"] not in ("steady", "maxruntime"):
            kind = "FinishedSimulation"
        out.append({"tracker": j, "m": m, "kind": kind, "msg": f.get("msg"), "via": via})
    return out


# ======================================================================================
# execution + oracles
# ======================================================================================


def execute(plan: dict) -> dict:
    import pde  # noqa: F401

    prop = plan["prop"]
    log = EventLog()
    stats: dict = {"faults": {}, "probes": {}}
    log.add("plan", digest_of(plan))
    viol = None

    def probe(name, n=1):
        stats["probes"][name] = stats["probes"].get(name, 0) + n

    def fail(klass, detail, key=None):
        nonlocal viol
        if viol is None:
            viol = violation(klass, detail, key)

    dt, t_start, t_end = plan["dt"], plan["t_start"], plan["t_end"]
    fixed = not plan["adaptive"]
    spec = plan["t_end_spec"]
    whole = spec["mode"] in ("n_steps", "decimal")
    N = spec["n"]

    if plan.get("prior"):
        probe("earlier_use_of_same_objects")
        if plan["entry"] == "controller" and plan["prior"]["same_solver"]:
            probe("earlier_use_same_solver_object")
            if plan["prior"]["same_controller"]:
                probe("earlier_use_same_controller_object")

    # ---------------- R0: no trackers
    r0 = _run_once(plan, trackers_mode="none")
    if r0["exception"]:
        fail("no-progress" if r0.get("no_progress") else "run-raised", f"run without trackers raised {r0['exception']}")
        return _finish(plan, log, stats, viol, 0.0)
    steps0 = int(r0["solver_info"]["steps"])
    tfin0 = float(r0["info"]["controller"]["t_final"])
    log.add("R0", steps0, fbits(tfin0), fbits(r0["result"].data))

    # ---------------- REF trajectory (fixed step)
    traj = None
    if fixed:
        n_ref = max(N, steps0) + 3
        try:
            traj = _reference_trajectory(plan, n_ref)
        except OneStepMapBroken as err:
            fail("C07/one-step-map", str(err) + f" (t_start={t_start!r}); time and step accounting of every run is built on this map")
            return _finish(plan, log, stats, viol, 0.0)

    exact = r0["autonomous"]
    _NA_ATOL[0] = _nonautonomous_atol(plan)

    def check_accounting(tag, run, with_trackers):
        """C07 oracles 1, 3, 4 on one finished, unstopped run."""
        info = run["info"]["controller"]
        steps = int(run["solver_info"]["steps"])
        t_final = float(info["t_final"])
        res = run["result"]
        if fixed:
            if whole and t_end > t_start:
                if steps != N:
                    fail("C07/steps", f"{tag}: range is N={N} steps long (dt={dt!r}, t_start={t_start!r}, t_end={t_end!r}) but the solver reports {steps} steps")
                if not abs(t_final - t_end) <= _tbound(plan, N):
                    fail("C07/t_final", f"{tag}: t_final={t_final!r} differs from t_end={t_end!r} by {t_final - t_end:.3e} after N={N} steps")
            if not abs(t_final - (t_start + steps * dt)) <= _tbound(plan, steps):
                fail("C07/t_final-vs-steps", f"{tag}: t_final={t_final!r} but t_start + steps*dt = {t_start + steps * dt!r} (steps={steps})")
            if t_end > t_start and not abs(t_final - t_end) < dt * (1 + 1e-9) + _tbound(plan, steps):
                fail("C07/t_final-far", f"{tag}: |t_final - t_end| = {abs(t_final - t_end):.6g} is not below dt={dt!r}")
            if t_end <= t_start and steps != 0:
                fail("C07/steps", f"{tag}: empty range but {steps} steps were made")
            if plan["eq"].get("hook") and float(run["solver_info"].get("post_step_data", -1)) != float(steps):
                fail("C07/hook-data-lost", f"{tag}: the post-step hook counted {run['solver_info'].get('post_step_data')!r} calls in {steps} steps "
                     "(its data must survive the segmentation of the run by trackers)")
            if 0 <= steps < len(traj):
                if not _same(res.data, traj[steps], exact):
                    fail("C07/state-vs-steps", f"{tag}: final state {res.data!r} is not {steps} applications of the one-step map {traj[steps]!r}")
            else:
                fail("C07/steps", f"{tag}: implausible step count {steps} for N={N}")
        if run["before"] != run["after"]:
            fail("C07/initial-state-modified", f"{tag}: the caller's initial state changed: {run['before'][1:3]} -> {run['after'][1:3]}")
        if res is not None and np.shares_memory(res._data_full, run["state0"]._data_full):
            fail("C07/initial-state-aliased", f"{tag}: returned state shares memory with the caller's initial state")

    if prop == "C07":
        check_accounting("no-tracker run", r0, False)

    # ---------------- H0: trackers, nothing armed
    h0 = _run_once(plan, trackers_mode="h0")
    rec0: _Rec = h0["rec"]
    if h0["exception"]:
        fail("no-progress" if h0.get("no_progress") else "run-raised", f"run with read-only trackers raised {h0['exception']}")
        return _finish(plan, log, stats, viol, 0.0)
    info0 = h0["info"]["controller"]
    tfinH0 = float(info0["t_final"])
    for c in rec0.calls:
        log.add("h0", c["j"], c["m"], fbits(c["t"]), digest_of(c["snap"])[:12])
    log.add("H0", int(h0["solver_info"]["steps"]), fbits(tfinH0), fbits(h0["result"].data), h0["clock"].reads)
    for k, v in h0["clock"].stats.items():
        stats["faults"]["clock_" + k] = stats["faults"].get("clock_" + k, 0) + v
    sim_time = max(0.0, tfinH0 - t_start)
    rounds0 = _rounds(rec0.calls)
    if any(len(r["calls"]) >= 2 for r in rounds0):
        probe("round_with_2plus_trackers")
    if rec0.first_raise_seq is not None:
        # nothing is armed in H0, so no tracker may stop the run
        fail("unarmed-stop", f"a read-only tracker stopped the fault-free run: {[c['raised'] for c in rec0.calls if c['raised']]}")

    if fixed:
        for (t_a, t_b, _t_out, _n, _raw) in rec0.stepper:
            if t_b - t_a < 0.5 * dt:
                probe("forced_single_step")
                break
    if not whole:
        probe("range_not_whole")
    if not exact:
        probe("nonautonomous")
    if plan.get("use_auto"):
        probe("tracker_auto")
    if prop == "C07":
        check_accounting("run with trackers", h0, True)
        if fixed and whole:
            if int(h0["solver_info"]["steps"]) != steps0:
                fail("C07/steps-perturbed", f"trackers changed the number of steps: {steps0} without, {int(h0['solver_info']['steps'])} with trackers")
            if not _same(h0["result"].data, r0["result"].data, exact, rtol=1e-12):
                fail("C07/state-perturbed", f"trackers changed the final state: {r0['result'].data!r} without vs {h0['result'].data!r} with read-only trackers (autonomous={exact})")
        if h0["result"].data.dtype != r0["result"].data.dtype:
            fail("C07/state-perturbed", "dtype of the final state depends on trackers")
        # time seen by the trackers never decreases
        last = -math.inf
        for c in rec0.calls:
            if c["t"] < last:
                fail("C07/time-decreased", f"tracker {c['j']} was called at t={c['t']!r} after a call at t={last!r}")
            last = c["t"]
        if any(not float(tr["interrupt"].get("dt", 1.0) / dt).is_integer() for tr in plan["trackers"] if tr["interrupt"]["type"] == "const"):
            probe("noncommensurate_interval")

    if prop == "C08":
        _c08_fault_free(plan, h0, rec0, traj, exact, fail, probe)
        # ---------------- H1: armed
        faults = _resolve_faults(plan, rec0)
        for f in faults:
            stats["faults"]["configured_" + f["kind"]] = stats["faults"].get("configured_" + f["kind"], 0) + 1
        log.add("faults", faults)
        if faults:
            h1 = _run_once(plan, trackers_mode="h1", faults_resolved=faults)
            _c08_faulted(plan, h0, h1, faults, exact, fail, probe, stats, log)
    return _finish(plan, log, stats, viol, sim_time)


def _finish(plan, log, stats, viol, sim_time):
    nontrivial = bool(plan["trackers"]) and (
        any(tr["interrupt"]["type"] != "const" or not float(tr["interrupt"]["dt"] / plan["dt"]).is_integer()
            for tr in plan["trackers"]) or bool(sum(v for k, v in stats["faults"].items() if k.startswith("fired_"))))
    log.add("verdict", viol["class"] if viol else None)
    return {"violation": viol, "digest": log.digest(), "stats": stats, "nontrivial": nontrivial,
            "sig": digest_of([plan["solver"], plan["backend"], plan["adaptive"], plan["trackers"], plan["faults"],
                              plan["t_end_spec"], plan["dt"], plan["t_start"]]),
            "sim_time": sim_time, "events_head": log.head[:60]}


# --------------------------------------------------------------------------------------
# C08 oracles
# --------------------------------------------------------------------------------------


def _c08_fault_free(plan, h0, rec0: _Rec, traj, exact, fail, probe):
    dt, t_start, t_end = plan["dt"], plan["t_start"], plan["t_end"]
    fixed = not plan["adaptive"]
    ntr = len(plan["trackers"])
    t_final = float(h0["info"]["controller"]["t_final"])
    steps_total = int(h0["solver_info"]["steps"])
    # stepper probe: state by return time (adaptive: the only definition of "genuine")
    ret_states = {}
    if rec0.stepper:
        for (_ta, _tb, t_out, _steps, raw) in rec0.stepper:
            ret_states[t_out] = raw
    init_raw = None
    per = [[c for c in rec0.calls if c["j"] == j] for j in range(ntr)]
    for j in range(ntr):
        calls = per[j]
        # 1. strictly increasing
        for a, b in zip(calls, calls[1:]):
            if not b["t"] > a["t"]:
                fail("C08/not-increasing", f"tracker {j} ({plan['trackers'][j]}) called at t={a['t']!r} and then at t={b['t']!r}")
        # 2. genuine simulation times with the state of that time
        for c in calls:
            if fixed:
                n = int(round((c["t"] - t_start) / dt))
                if n < 0 or not abs(c["t"] - (t_start + n * dt)) <= _tbound(plan, n):
                    fail("C08/not-a-simulation-time", f"tracker {j} called at t={c['t']!r}, which is not t_start + n*dt (n={n}, dt={dt!r})")
                elif n < len(traj):
                    snap = np.frombuffer(c["snap"], dtype=traj[n].dtype).reshape(traj[n].shape)
                    if not _same(snap, traj[n], exact):
                        fail("C08/wrong-state-at-call", f"tracker {j} at t={c['t']!r} saw {snap!r}, but the state after n={n} steps is {traj[n]!r}")
                elif n > steps_total:
                    fail("C08/not-a-simulation-time", f"tracker {j} called at step {n} > total steps {steps_total}")
            else:
                if c["t"] == t_start and not ret_states.get(c["t"]):
                    continue
                if c["t"] not in ret_states:
                    fail("C08/not-a-simulation-time", f"adaptive: tracker {j} called at t={c['t']!r}, a time the stepper never returned ({sorted(ret_states)[:8]}...)")
                elif ret_states[c["t"]] != c["snap"]:
                    fail("C08/wrong-state-at-call", f"adaptive: tracker {j} at t={c['t']!r} saw a state different from the one the stepper returned at that time")
        # 3. constant interval
        itr = plan["trackers"][j]["interrupt"]
        if itr["type"] == "const":
            D = float(itr["dt"])
            base = t_start if itr.get("t_start") is None else max(t_start, float(itr["t_start"]))
            if (fixed and D >= dt) or (not fixed and D >= 1e-6):
                _check_constant(plan, j, calls, D, base, t_final, fail, probe, max(rec0.dt_seen, dt))
        # storage
        if plan["trackers"][j]["kind"] == "storage":
            st = h0["extras"][j]["storage"]
            times = [float(t) for t in st.times]
            if times != [c["t"] for c in calls] or len(st) != len(calls):
                fail("C08/storage-frames", f"storage tracker {j} holds times {times} but was called at {[c['t'] for c in calls]}")
            else:
                for k, c in enumerate(calls):
                    if np.asarray(st.data[k]).tobytes() != c["snap"]:
                        fail("C08/storage-frames", f"storage tracker {j}: frame {k} differs from the state at its call")
            sess = rec0.storage_sessions[j]
            if sess["start"] != 1 or sess["end"] != 1:
                fail("C08/storage-session", f"storage tracker {j}: start_writing x{sess['start']}, end_writing x{sess['end']}")
        if plan["trackers"][j]["kind"] == "data":
            tr = h0["objs"][j]
            if [float(t) for t in tr.times] != [c["t"] for c in calls]:
                fail("C08/data-times", f"DataTracker {j} times {tr.times} vs calls {[c['t'] for c in calls]}")
    # lifecycle
    for j in range(ntr):
        if rec0.init[j] != 1 or rec0.fin[j] != 1:
            fail("C08/lifecycle", f"tracker {j}: initialize x{rec0.init[j]}, finalize x{rec0.fin[j]} in an unstopped run")
        if any(c["after_fin"] for c in per[j]):
            fail("C08/lifecycle", f"tracker {j} handled data after being finalised")
    if h0["info"]["controller"].get("stop_reason") != "Reached final time" or h0["info"]["controller"].get("successful") is not True:
        fail("C08/stop-info", f"unstopped run reports {h0['info']['controller'].get('stop_reason')!r}, successful={h0['info']['controller'].get('successful')!r}")
    if not fixed and len([1 for tr in plan["trackers"] if tr["interrupt"]["type"] == "const"]) >= 2:
        probe("adaptive_multi_const_trackers")
    if not fixed:
        probe("adaptive_runs")


def _check_constant(plan, j, calls, D, base, t_final, fail, probe, dt_max_seen):
    """Oracle 3 of C08: every scheduled time base + k*D <= t_end is served exactly once, by a
    call within dt/2 of it (exactly at it for adaptive steppers); no other calls except
    possibly one at the final time when the run ended beyond t_end."""
    dt, t_start, t_end = plan["dt"], plan["t_start"], plan["t_end"]
    fixed = not plan["adaptive"]
    ntr = len(plan["trackers"])
    tol_t = _tbound(plan, int((t_end - t_start) / dt) + 2) + 4 * EPS * (abs(base) + abs(t_end))
    sched = []
    k = 0
    ambiguous_last = False
    # The run loop treats times closer than 1e-6*dt as equal (its documented tolerance against
    # inexact float arithmetic), so a scheduled time within that distance beyond t_end may or may
    # not count as "<= t_end"; both outcomes are accepted.
    tol_end = 1e-6 * (dt if fixed else dt_max_seen)
    while k <= 200000:
        s = base + k * D
        if s > t_end + tol_end + tol_t + 8 * k * EPS * D:
            break
        if s > t_end - tol_t - 8 * k * EPS * D:
            ambiguous_last = True
        sched.append(s)
        k += 1
    times = [c["t"] for c in calls]
    extra_allowed = t_final > t_end + tol_t  # the run ended beyond t_end (range not a whole number of steps)
    n_s, n_c = len(sched), len(times)
    # adaptive: "exactly" means up to the run loop's own notion of equal times, 1e-6 of the (current
    # adaptive) step, plus the stepper's minimal step of 1e-10 by which it may overshoot a target
    lim = (0.5 * dt * (1 + 1e-9) + tol_t) if fixed else (2e-10 + 1e-6 * dt_max_seen * (1 + 1e-9) + tol_t)
    for i, t in enumerate(times[:n_s]):
        s = sched[i]
        if not abs(t - s) <= lim + 8 * i * EPS * D:
            if i == n_c - 1 and extra_allowed and t == t_final:
                continue
            key = None
            if not fixed and ntr >= 2 and t < s:
                key = "C08/adaptive/early-service/multi-tracker"
            fail("C08/constant-served-far", f"tracker {j} interval D={D!r}: scheduled time #{i} = {s!r} was served at t={t!r}, "
                 f"{abs(t - s):.6g} away (allowed: {'dt/2 = ' + repr(0.5 * dt) if fixed else 'exactly at it (adaptive)'}); "
                 f"calls {times[:10]}, {ntr} trackers", key=key)
            return
        if fixed and t < s - 1e-9 * dt:
            probe("served_early_by_half_step_rule")
    ok_counts = {n_s}
    if ambiguous_last:
        ok_counts.add(n_s - 1)
    if extra_allowed:
        ok_counts |= {n + 1 for n in list(ok_counts)}
    if n_c not in ok_counts:
        fail("C08/constant-count", f"tracker {j} interval D={D!r} (dt={dt!r}, base={base!r}, t_end={t_end!r}, t_final={t_final!r}): "
             f"{n_c} calls at {times[:12]}{'...' if n_c > 12 else ''} for {n_s} scheduled times {sched[:12]}{'...' if n_s > 12 else ''}")
        return
    if n_c > n_s:
        # One more call is allowed when the run ended beyond t_end.  It must be a legitimate service of the
        # first scheduled time after t_end: either at the final time, or within dt/2 of that scheduled time.
        s_next = base + n_s * D
        t_x = times[-1]
        if not (t_x == t_final or abs(t_x - s_next) <= lim + 8 * n_s * EPS * D):
            fail("C08/constant-extra", f"tracker {j}: extra call at {t_x!r}, which is neither the final time {t_final!r} nor within "
                 f"dt/2 of the next scheduled time {s_next!r} (t_end={t_end!r})")
        elif t_x != t_final:
            probe("extra_call_before_final_time")


def _c08_faulted(plan, h0, h1, faults, exact, fail, probe, stats, log):
    from_h0: _Rec = h0["rec"]
    rec1: _Rec = h1["rec"]
    ntr = len(plan["trackers"])
    fixed = not plan["adaptive"]
    for c in rec1.calls:
        log.add("h1", c["j"], c["m"], fbits(c["t"]), digest_of(c["snap"])[:12], c["raised"])
    for (j, m, kind) in rec1.fired:
        stats["faults"]["fired_" + kind] = stats["faults"].get("fired_" + kind, 0) + 1
    nan_fired = [f for f in rec1.fired if f[2] == "nan"]
    if h1["exception"]:
        fail("no-progress" if h1.get("no_progress") else "run-raised", f"run with stop faults {faults} raised {h1['exception']}")
        return
    info = h1["info"]["controller"]
    t_final = float(info["t_final"])
    log.add("H1", fbits(t_final), info.get("stop_reason"), info.get("successful"), fbits(h1["result"].data))
    rounds0 = _rounds(from_h0.calls)
    rounds1 = _rounds(rec1.calls)
    raisers = [c for c in rec1.calls if c["raised"]]
    natural = [c for c in raisers if (c["j"], c["m"]) not in {(f[0], f[1]) for f in rec1.fired if f[2] != "nan"}]
    for c in natural:
        stats["faults"]["fired_natural_" + plan["trackers"][c["j"]]["kind"]] = stats["faults"].get("fired_natural_" + plan["trackers"][c["j"]]["kind"], 0) + 1
    # lifecycle: every tracker initialised and finalised exactly once, whatever happened
    for j in range(ntr):
        if rec1.init[j] != 1 or rec1.fin[j] != 1:
            fail("C08/stop-not-finalised", f"tracker {j} ({plan['trackers'][j]['kind']}): initialize x{rec1.init[j]}, finalize x{rec1.fin[j]} in a run stopped by {faults}")
        if any(c["after_fin"] for c in rec1.calls if c["j"] == j):
            fail("C08/lifecycle", f"tracker {j} handled data after being finalised")
    for j, sess in rec1.storage_sessions.items():
        if sess["start"] != 1 or sess["end"] != 1:
            fail("C08/storage-session", f"storage tracker {j}: start_writing x{sess['start']}, end_writing x{sess['end']} in a stopped run")

    def same_call(a, b, compare_state):
        return a["j"] == b["j"] and a["m"] == b["m"] and a["t"] == b["t"] and (not compare_state or a["snap"] == b["snap"])

    if not raisers:
        # no stop happened: the armed run must be the fault-free run
        if len(rec1.calls) != len(from_h0.calls) or not all(
                same_call(a, b, not nan_fired) for a, b in zip(rec1.calls, from_h0.calls)):
            fail("C08/armed-run-differs", "no tracker raised, yet the run with armed (unfired) faults differs from the fault-free run")
        if info.get("stop_reason") != "Reached final time":
            fail("C08/stop-info", f"no tracker raised but stop_reason={info.get('stop_reason')!r}")
        return
    probe("stops")
    first = raisers[0]
    # the round in which the first raise happened
    r_idx = next(i for i, r in enumerate(rounds1) if any(c["seq"] == first["seq"] for c in r["calls"]))
    stop_round = rounds1[r_idx]
    if r_idx != len(rounds1) - 1:
        later = rounds1[r_idx + 1]
        fail("C08/handled-after-stop", f"tracker {first['j']} raised {first['raised']} at t={first['t']!r} but trackers were handled again at t={later['t']!r}")
        return
    # prefix equality with the fault-free run (all rounds up to and including the stop round)
    nan_seq = None
    if nan_fired:
        jn, mn, _ = nan_fired[0]
        nan_seq = next((c["seq"] for c in rec1.calls if c["j"] == jn and c["m"] == mn), None)
    if len(rounds0) <= r_idx:
        fail("C08/stop-history", f"the stopped run has more tracker rounds ({len(rounds1)}) than the fault-free run ({len(rounds0)})")
        return
    for i in range(r_idx + 1):
        a, b = rounds1[i], rounds0[i]
        if a["t"] != b["t"] or [c["j"] for c in a["calls"]] != [c["j"] for c in b["calls"]]:
            if i == r_idx and a["t"] == b["t"]:
                missing = [c["j"] for c in b["calls"] if c["j"] not in [x["j"] for x in a["calls"]]]
                fail("C08/due-tracker-skipped-at-stop", f"stop at t={a['t']!r} raised by tracker {first['j']}: trackers {missing} were due at that time "
                     f"(served in the fault-free run: {[c['j'] for c in b['calls']]}) but only {[c['j'] for c in a['calls']]} were served")
            else:
                fail("C08/stop-history", f"round {i}: stopped run served {[(c['j'], c['t']) for c in a['calls']]}, fault-free run served {[(c['j'], c['t']) for c in b['calls']]}")
            return
        for ca, cb in zip(a["calls"], b["calls"]):
            if (nan_seq is None or ca["seq"] <= nan_seq) and ca["snap"] != cb["snap"]:
                fail("C08/stop-history", f"round {i}: tracker {ca['j']} saw a different state in the stopped run before any fault fired")
                return
    if len(stop_round["calls"]) >= 2:
        probe("two_plus_due_at_stop")
    if sum(1 for c in stop_round["calls"] if c["raised"]) >= 2:
        probe("two_raisers_same_round")
    if stop_round["t"] == plan["t_start"]:
        probe("stop_at_t_start")
    if r_idx == len(rounds0) - 1 and stop_round["t"] >= plan["t_end"] - 1e-6 * plan["dt"]:
        probe("stop_in_final_handle")
    if any(c["seq"] > first["seq"] for c in stop_round["calls"]):
        probe("tracker_served_after_raiser_in_same_round")
    # run ends at that time with the state of that time
    if t_final != stop_round["t"]:
        fail("C08/stop-time", f"stop requested at t={stop_round['t']!r} but t_final={t_final!r}")
    last_snap = stop_round["calls"][-1].get("snap_after") or stop_round["calls"][-1]["snap"]
    if h1["result"] is None or np.asarray(h1["result"].data).tobytes() != last_snap:
        fail("C08/stop-state", f"returned state {None if h1['result'] is None else h1['result'].data!r} is not the state at the stop time t={stop_round['t']!r}")
    # the stop reason is reported
    ok_pairs = []
    for c in stop_round["calls"]:
        if c["raised"]:
            name, value = c["raised"]
            fin = name == "FinishedSimulation"
            reason = value if value else ("Tracker raised FinishedSimulation" if fin else "Tracker raised StopIteration")
            ok_pairs.append((reason, fin))
    if (info.get("stop_reason"), bool(info.get("successful"))) not in ok_pairs:
        fail("C08/stop-reason", f"stop_reason={info.get('stop_reason')!r} successful={info.get('successful')!r}; raisers of the stop round allow {ok_pairs}")


# ======================================================================================
# plan simplification for minimisation (each candidate changes one thing)
# ======================================================================================


def _recompute_t_end(plan):
    spec, dt, t0 = plan["t_end_spec"], plan["dt"], plan["t_start"]
    if spec["mode"] == "n_steps":
        plan["t_end"] = t0 + spec["n"] * dt
    elif spec["mode"] == "decimal":
        plan["t_end"] = float(decimal.Decimal(repr(t0)) + spec["n"] * decimal.Decimal(repr(dt)))
    else:
        plan["t_end"] = t0 + (spec["n"] + spec["frac"]) * dt
    return plan


def simplify(plan):
    def variant(fn):
        p = copy.deepcopy(plan)
        fn(p)
        return _recompute_t_end(p)

    n = plan["t_end_spec"]["n"]
    for new_n in sorted({n // 2, n - 1, 1, 2, 3, 5, 10} - {n}):
        if 0 <= new_n < n:
            yield variant(lambda p, v=new_n: p["t_end_spec"].update(n=v))
    if plan["clock"]["profile"] != "steady":
        yield variant(lambda p: p["clock"].update(profile="steady"))
    if plan.get("prior"):
        yield variant(lambda p: p.pop("prior"))
        pr = plan["prior"]
        for k, v in (("tracker", False), ("same_controller", False), ("n", 1), ("frac", 0.0), ("dt_factor", 1.0), ("t_start", 0.0)):
            if pr[k] != v:
                yield variant(lambda p, k=k, v=v: p["prior"].update({k: v}))
    if plan.get("use_auto"):
        yield variant(lambda p: p.update(use_auto=False))
    if plan["t_start"] != 0.0:
        yield variant(lambda p: p.update(t_start=0.0))
    if plan.get("t_range_scalar"):
        yield variant(lambda p: p.update(t_range_scalar=False))
    if plan["t_end_spec"]["mode"] != "n_steps":
        yield variant(lambda p: p.update(t_end_spec={"mode": "n_steps", "n": p["t_end_spec"]["n"]}))
    for new_dt in (1.0, 0.5, 0.1):
        if plan["dt"] != new_dt:
            def f(p, v=new_dt):
                ratio = v / p["dt"]
                p["dt"] = v
                if p["eq"]["kind"] == "linear":
                    p["eq"]["a"] = [x / ratio for x in p["eq"]["a"]]
                    p["eq"]["w"] = p["eq"]["w"] / ratio
                else:
                    p["eq"]["D"] = p["eq"]["D"] / ratio
                for tr in p["trackers"]:
                    it = tr["interrupt"]
                    for k in ("dt", "dt_initial", "scale"):
                        if k in it:
                            it[k] = it[k] * ratio
                    if "t_start" in it:
                        it["t_start"] = p["t_start"] + (it["t_start"] - p["t_start"]) * ratio
                    if "times" in it:
                        it["times"] = [p["t_start"] + (x - p["t_start"]) * ratio for x in it["times"]]
            yield variant(f)
    if plan["eq"]["kind"] != "linear":
        yield variant(lambda p: p.update(eq={"kind": "linear", "a": [-0.1 / p["dt"], 0.0], "b": 0.0, "w": 0.0, "cells": 2, "u0_seed": 1}))
    else:
        if plan["eq"].get("hook"):
            yield variant(lambda p: p["eq"].pop("hook"))
        if plan["eq"]["b"] != 0.0:
            yield variant(lambda p: p["eq"].update(b=0.0, w=0.0))
        if plan["eq"]["a"][1] != 0.0:
            yield variant(lambda p: p["eq"].update(a=[p["eq"]["a"][0], 0.0]))
        if plan["eq"]["cells"] != 2:
            yield variant(lambda p: p["eq"].update(cells=2))
    if plan["solver"] != "euler":
        yield variant(lambda p: p.update(solver="euler"))
    if plan["backend"] != "numpy":
        yield variant(lambda p: p.update(backend="numpy"))
    if plan["entry"] != "controller":
        yield variant(lambda p: p.update(entry="controller"))
    for j, tr in enumerate(plan["trackers"]):
        if tr["kind"] not in ("rec",) and not any(f["tracker"] % len(plan["trackers"]) == j and f["kind"] in ("arm",) for f in plan["faults"]):
            yield variant(lambda p, j=j: p["trackers"][j].update(kind="rec"))
        it = tr["interrupt"]
        if it["type"] == "const":
            if "t_start" in it:
                yield variant(lambda p, j=j: p["trackers"][j]["interrupt"].pop("t_start"))
            if it.get("as_number"):
                yield variant(lambda p, j=j: p["trackers"][j]["interrupt"].pop("as_number"))
            r = it["dt"] / plan["dt"]
            for nice in (1.0, 2.0, 1.5, 2.5, 3.0, round(r, 1), round(r, 2)):
                if nice > 0 and abs(nice - r) > 1e-12:
                    yield variant(lambda p, j=j, v=nice: p["trackers"][j]["interrupt"].update(dt=v * p["dt"]))
        elif it["type"] == "fixed":
            for k in range(len(it["times"])):
                yield variant(lambda p, j=j, k=k: p["trackers"][j]["interrupt"]["times"].pop(k))
        elif it["type"] != "const":
            yield variant(lambda p, j=j: p["trackers"][j].update(interrupt={"type": "const", "dt": 2 * p["dt"]}))
    for i, f in enumerate(plan["faults"]):
        if f.get("msg") is not None:
            yield variant(lambda p, i=i: p["faults"][i].update(msg=None))
        if f.get("at") not in ("index",):
            for m in (0, 1, 2, 3):
                yield variant(lambda p, i=i, m=m: p["faults"][i].update(at="index", m=m))
