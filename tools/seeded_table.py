#!/usr/bin/env python3
"""Writes /verif/seeded/README.md from the meta.json files."""
import glob
import json
import os

ROOT = os.path.dirname(os.path.dirname(os.path.abspath(__file__)))
rows = []
for meta in sorted(glob.glob(os.path.join(ROOT, "seeded", "*", "meta.json"))):
    m = json.load(open(meta))
    d = os.path.dirname(meta)
    first = ""
    notes = os.path.join(d, "NOTES.md")
    if os.path.exists(notes):
        for line in open(notes):
            if line.strip() and not line.startswith("#"):
                first = line.strip()
                break
    chk = m.get("checks", {})
    tier = next((t for t in ("quick", "thorough") if chk.get(t, {}).get("caught")), None)
    hist = m.get("history", [])
    rows.append((m["id"], m["property"], ", ".join(x.split("|")[0].strip() for x in m.get("files_changed", [])[:-1]) or "",
                 m.get("needs", first)[:260], m.get("demo", {}), m.get("suite", {}), tier, chk.get(tier, {}).get("class") if tier else None, hist))
out = ["# Independently seeded breaking changes", "",
       "Each change was written by a fresh sub-agent that saw only the text of one property and a scratch git worktree of",
       "py-pde (nothing from /verif).  `tools/eval_seed.py` confirmed for every one of them, on a scratch worktree: the patch",
       "applies to /repo's HEAD, the author's demonstration exits 1 on the changed tree and 0 on the unchanged tree, and the",
       "complete existing suite still passes (1192 passed, as the baseline).  Then the property's check was run against the",
       "changed tree (`VERIF_REPO=<scratch>`).  `history` records what happened when a change was first missed.", "",
       "| id | property | files | what it needs in order to manifest | demo (changed/unchanged) | suite | caught by | class |", "|---|---|---|---|---|---|---|---|"]
for (sid, prop, files, needs, demo, suite, tier, cls, hist) in rows:
    out.append(f"| {sid} | {prop} | {files} | {needs} | {demo.get('exit_on_changed_tree')}/{demo.get('exit_on_unchanged_tree')} | "
               f"{suite.get('passed')} passed, {suite.get('failed', 0)} failed | {tier + ' tier' if tier else '**missed**'} | {cls or ''} |")
out.append("")
for (sid, prop, files, needs, demo, suite, tier, cls, hist) in rows:
    if hist:
        out.append(f"* **{sid}**: " + " ".join(hist))
out.append("")
open(os.path.join(ROOT, "seeded", "README.md"), "w").write("\n".join(out))
print("\n".join(out))
