#!/venv/bin/python
"""Regenerate /verif/mutants/*.diff from the textual edits listed in mutants/SPEC.py,
against the current /repo working tree.  Nothing is ever applied to /repo."""
import difflib
import os
import sys

ROOT = os.path.dirname(os.path.dirname(os.path.abspath(__file__)))
REPO = os.environ.get("VERIF_REPO_SRC", "/repo")
sys.path.insert(0, os.path.join(ROOT, "mutants"))
import glob  # noqa: E402
import importlib  # noqa: E402


class SPEC:  # merged view over mutants/SPEC*.py
    MUTANTS = {}


for _f in sorted(glob.glob(os.path.join(ROOT, "mutants", "SPEC*.py"))):
    SPEC.MUTANTS.update(importlib.import_module(os.path.basename(_f)[:-3]).MUTANTS)

only = sys.argv[1] if len(sys.argv) > 1 else None
bad = 0
for name, edits in SPEC.MUTANTS.items():
    if only and only not in name:
        continue
    out = []
    ok = True
    by_file = {}
    for (path, old, new) in edits:
        by_file.setdefault(path, []).append((old, new))
    for path, pairs in by_file.items():
        src = open(os.path.join(REPO, path)).read()
        dst = src
        for old, new in pairs:
            if dst.count(old) != 1:
                print(f"!! {name}: pattern occurs {dst.count(old)}x in {path}: {old[:60]!r}")
                ok = False
                continue
            dst = dst.replace(old, new)
        out.extend(difflib.unified_diff(src.splitlines(True), dst.splitlines(True), "a/" + path, "b/" + path))
    if not ok:
        bad += 1
        continue
    with open(os.path.join(ROOT, "mutants", name + ".diff"), "w") as f:
        f.writelines(out)
print("done", "with %d failures" % bad if bad else "")
sys.exit(1 if bad else 0)
