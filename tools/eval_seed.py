#!/venv/bin/python
"""Confirm an independently written breaking change and run the checks against it.

  tools/eval_seed.py --prop C08 --src /tmp/seed-C08/SEED_1 --id C08-s1 [--skip-suite] [--thorough]

Steps (all on a scratch git worktree of /repo outside /repo and /verif, removed afterwards):
  1. the patch applies to /repo's HEAD;
  2. the demonstration exits 1 on the changed tree and 0 on the unchanged tree;
  3. the complete existing test suite still passes on the changed tree (same number of passes as the baseline);
  4. the property's check (quick tier; thorough tier on request or when quick misses) is run with VERIF_REPO=<scratch>;
  5. everything is recorded in /verif/seeded/<id>/meta.json next to patch.diff, the demonstration and the author's notes.
Nothing is ever applied to /repo.
"""
import argparse
import json
import os
import re
import shutil
import subprocess
import sys
import tempfile
import time

ROOT = os.path.dirname(os.path.dirname(os.path.abspath(__file__)))
BASELINE_PASSED = 1192


def sh(cmd, **kw):
    return subprocess.run(cmd, capture_output=True, text=True, **kw)


def main():
    ap = argparse.ArgumentParser()
    ap.add_argument("--prop", required=True)
    ap.add_argument("--src", required=True)
    ap.add_argument("--id", required=True)
    ap.add_argument("--skip-suite", action="store_true")
    ap.add_argument("--thorough", action="store_true")
    ap.add_argument("--only-check", action="store_true", help="re-run the checks for an already recorded seed")
    args = ap.parse_args()
    dest = os.path.join(ROOT, "seeded", args.id)
    os.makedirs(dest, exist_ok=True)
    meta_path = os.path.join(dest, "meta.json")
    meta = json.load(open(meta_path)) if os.path.exists(meta_path) else {}
    if not args.only_check:
        for name in ("patch.diff", "demo.py", "NOTES.md"):
            shutil.copy(os.path.join(args.src, name), os.path.join(dest, name))
    patch = os.path.join(dest, "patch.diff")
    if args.only_check and os.path.exists(os.path.join(dest, "patch_current.diff")):
        patch = os.path.join(dest, "patch_current.diff")  # carried over to the current HEAD (see meta.json)
    scratch = tempfile.mkdtemp(prefix="seedeval-", dir="/var/tmp")
    os.rmdir(scratch)
    r = sh(["git", "-C", "/repo", "worktree", "add", "--detach", scratch, "HEAD", "-q"])
    if r.returncode:
        print("cannot create worktree:", r.stderr)
        return 2
    try:
        head = sh(["git", "-C", "/repo", "rev-parse", "--short", "HEAD"]).stdout.strip()
        r = sh(["git", "-C", scratch, "apply", patch])
        meta.update({"property": args.prop, "id": args.id, "repo_head": head, "patch_applies": r.returncode == 0})
        if r.returncode:
            meta["error"] = r.stderr[-500:]
            print("patch does not apply:", r.stderr)
            json.dump(meta, open(meta_path, "w"), indent=1)
            return 1
        meta["files_changed"] = sh(["git", "-C", scratch, "diff", "--stat"]).stdout.strip().splitlines()
        env = dict(os.environ, NUMBA_DISABLE_JIT=os.environ.get("SEED_DEMO_JIT", "1"), PYTHONDONTWRITEBYTECODE="1")
        if not args.only_check:
            # 2. demonstration
            demo = os.path.join(dest, "demo.py")
            t0 = time.time()
            r1 = sh(["/venv/bin/python", demo], env=dict(env, PYTHONPATH=scratch), cwd=dest, timeout=1800)
            r0 = sh(["/venv/bin/python", demo], env=dict(env, PYTHONPATH="/repo"), cwd=dest, timeout=1800)
            meta["demo"] = {"exit_on_changed_tree": r1.returncode, "exit_on_unchanged_tree": r0.returncode,
                            "output_on_changed_tree": (r1.stdout + r1.stderr)[-600:], "wall_s": round(time.time() - t0, 1),
                            "cmd": "NUMBA_DISABLE_JIT=1 PYTHONPATH=<tree> /venv/bin/python demo.py"}
            print(f"demo: changed tree exit {r1.returncode}, unchanged tree exit {r0.returncode}")
            # 3. the existing suite on the changed tree
            if not args.skip_suite:
                t0 = time.time()
                rs = sh(["/venv/bin/python", "-m", "pytest", "-q", "-p", "no:cacheprovider", "-n", os.environ.get("SEED_PYTEST_N", "12"), "-W", "ignore",
                         "--timeout=900"], env=dict(os.environ, PYTHONPATH=scratch, PYTHONDONTWRITEBYTECODE="1"), cwd=scratch, timeout=7200)
                tail = rs.stdout.strip().splitlines()[-1] if rs.stdout.strip() else rs.stderr[-200:]
                m = re.search(r"(\d+) passed", tail)
                f = re.search(r"(\d+) failed", tail)
                meta["suite"] = {"summary": tail, "passed": int(m.group(1)) if m else None, "failed": int(f.group(1)) if f else 0,
                                 "baseline_passed": BASELINE_PASSED, "wall_s": round(time.time() - t0, 1),
                                 "cmd": "PYTHONPATH=<changed tree> /venv/bin/python -m pytest -q -p no:cacheprovider -n 12 -W ignore --timeout=900 (cwd = changed tree)",
                                 "failing_tests": [line for line in rs.stdout.splitlines() if line.startswith("FAILED")][:10]}
                print("suite:", tail)
        # 4. the checks
        results = meta.setdefault("checks", {})
        tiers = ["quick"] + (["thorough"] if args.thorough else [])
        for tier in tiers:
            t0 = time.time()
            evdir = tempfile.mkdtemp(prefix="seedev-", dir="/var/tmp")
            envc = dict(os.environ, VERIF_REPO=scratch, VERIF_NO_DET="1", VERIF_EVIDENCE_DIR=evdir, VERIF_MAX_REPORTS="1",
                        VERIF_SHRINK_S=os.environ.get("VERIF_SHRINK_S", "40"), VERIF_REEXEC="0")
            envc.pop("PYTHONHASHSEED", None)
            rc = sh([os.path.join(ROOT, "check"), args.prop, "--tier", tier], env=envc, cwd=ROOT, timeout=4 * 3600)
            shutil.rmtree(evdir, ignore_errors=True)
            lines = rc.stdout.splitlines()
            vio = [line for line in lines if line.startswith("VIOLATION")]
            cls = [line.strip() for line in lines if line.strip().startswith("class=")]
            det = [line.strip() for line in lines if line.strip().startswith("detail=")]
            summ = [line for line in lines if line.startswith(f"[{args.prop}] runs=")]
            replay = None
            if vio:
                src = vio[0].split("replay=")[1].strip()
                replay = os.path.join(dest, f"replay-{tier}.json")
                try:
                    shutil.copy(src, replay)
                except OSError:
                    replay = None
            results[tier] = {"caught": rc.returncode == 1 and bool(vio), "exit": rc.returncode, "class": cls[0] if cls else None,
                             "detail": det[0][:400] if det else None, "summary": summ[-1] if summ else lines[-3:],
                             "replay": os.path.relpath(replay, ROOT) if replay else None, "wall_s": round(time.time() - t0, 1),
                             "seed": int(os.environ.get("VERIF_SEED", "0"))}
            print(f"check {args.prop} {tier}: {'CAUGHT ' + (cls[0] if cls else '') if results[tier]['caught'] else 'MISSED (exit %d)' % rc.returncode}")
            if results[tier]["caught"]:
                break
        meta["what_i_ran"] = "tools/eval_seed.py --prop %s --src %s --id %s" % (args.prop, args.src, args.id)
        json.dump(meta, open(meta_path, "w"), indent=1)
    finally:
        sh(["git", "-C", "/repo", "worktree", "remove", "--force", scratch])
        shutil.rmtree(scratch, ignore_errors=True)
    return 0


if __name__ == "__main__":
    sys.exit(main())
