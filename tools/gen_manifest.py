#!/usr/bin/env python3
"""Writes /verif/MANIFEST.json from the table below (keeps it valid at all times)."""
import json
import os

ROOT = os.path.dirname(os.path.dirname(os.path.abspath(__file__)))

NA = {
    "C01": "an operator is a fixed map of the padded array: pure function of (grid, operator, options, field); no schedule, clock, fault or history for a simulator to vary (its threaded execution is decided under C03)",
    "C02": "ghost cells are an affine function of field and BC data evaluated in one synchronous call; pure function of its input",
    "C05": "algebraic identity between stencil weights and cell volumes quantified over grids and fields; the per-step corollary follows from the identity and involves no schedule or fault",
    "C06": "one step of each scheme is a pure function of (rate, dt, state, t); the event-loop aspects (segmentation by trackers, ending at the requested time) are decided under C07/C08",
    "C10": "interpreted vs compiled vs expression-built rate at one (state, t) is a pure function of (equation, parameters, state, t); history effects of the caches are decided under C04",
    "C11": "text -> value is a pure function of (program, arguments); quantified over programs, a generator/translation-validation problem, not a simulation target",
    "C12": "pure geometry; no schedule, clock, fault or interleaving",
    "C14": "serialisation round trips are synchronous, in memory and total; no partial state a crash point could expose; storages with real I/O are outside the statement",
    "C16": "interpolation/insertion at a point is a pure function of (field, point, bc); its one history-dependent aspect (cached interpolator) is decided under C04",
    "C18": "a direct sparse solve: pure function of (grid, bc, rhs)",
    "C19": "orthonormality of bases and component order are pure functions of (grid, point, field)",
}

PENDING = {
    "C03": "claimed in DESIGN.md (prange-sim); check not built yet, will move to checks when it is",
    "C09": "claimed in DESIGN.md (timer-sim); check not built yet",
    "C13": "claimed in DESIGN.md (noise-sim); check not built yet",
    "C15": "claimed in DESIGN.md (alias-sim); check not built yet",
    "C17": "claimed in DESIGN.md (mpi-sim); check not built yet",
    "C20": "claimed in DESIGN.md (storage-sim); check not built yet",
}

CHECKS = {
    "C04": dict(
        engine="history-sim", design_ref="DESIGN.md 4.2",
        technique="deterministic simulation of a user session: seeded histories of public-API operations with injected environment events (gc, cache clears, dropped objects, poisoned re-allocation), each operation compared with the same call in a pristine forked interpreter under another hash seed",
        text="Seeded histories of 4-25 operations (operators through five routes, interpolation, collections that re-link member data, evolution rates, solves, Poisson solves, measures) over small pools of grids, fields, boundary conditions and equations chosen to coincide in some attributes (equal geometry/different class, bounds -1 vs -2, value 0 vs derivative 0, same spec/distinct objects). After every operation the value is compared with a zygote child that imported pde and computed nothing, given the current field contents. Exploration: the space of histories is unbounded; the search is biased to attribute collisions, which is where cache keys fail.",
        note="Trusts: the reference interpreter itself (same code, no history); numba backend in python mode (caches are Python-level and identical with JIT); comparison rtol 1e-9. sympy's own caches are warmed on both sides. Global configuration fixed per history.",
    ),
    "C07": dict(
        engine="controller-sim", design_ref="DESIGN.md 4.3",
        technique="deterministic simulation of the run loop: seeded tracker schedules under a simulated wall clock (stall/jump/slow-node faults), differential oracle against the tracker-free run and the single-step reference trajectory",
        text="Seeded search over (solver, backend, dt, range, tracker set, interrupt schedules, wall-clock profile); every plan runs the real Controller/TrackerCollection/trackers/interrupts/solvers under a simulated clock three times (no trackers, trackers, single-step reference) and checks step count, t_final, bit-identical final state for autonomous equations, and that the caller's state is untouched. Sampling, not proof: exploration is the right level because the property quantifies over unboundedly many schedules of a sequential event loop that has no finite state abstraction worth enumerating.",
        note="Trusts: numpy arithmetic; that python-mode execution of the numba stepping loops (same source) represents the compiled ones (a JIT sample is run in the thorough tier); the SimClock patches cover every clock read of the run loop (grep-verified list in sim/clock.py). Domain: N<=2000, <=5 trackers, |t|/dt<=1e5.",
    ),
    "C08": dict(
        engine="controller-sim", design_ref="DESIGN.md 4.4",
        technique="deterministic simulation with fault injection: seeded stop faults (StopIteration/FinishedSimulation at chosen tracker calls, NaN corruption, wall-clock expiry) in the simulated run loop; history checked against the fault-free run, the schedule lattice and the reference trajectory",
        text="As C07 plus adaptive steppers and stop faults placed where in-flight state exists (first handle, final handle, rounds with several due trackers, several raisers). The recorded per-tracker call history is checked for strictly increasing genuine simulation times, exact service of every scheduled time of constant intervals, and - under faults - prefix equality with the fault-free history up to and including the stop round, end time/state/reason and exactly-once finalisation. Bounded liveness (run loop must terminate within a step cap) is checked through the simulated clock.",
        note="Trusts the fault-free run as the definition of 'due at that time' (itself checked against the lattice oracle), numpy arithmetic, python-mode numba loops. Times closer than the run loop's own tolerance (1e-6*dt) are treated as equal. Domain as C07.",
    ),
}


def main():
    checks = []
    for pid, c in sorted(CHECKS.items()):
        checks.append({
            "property_id": pid,
            "quick_cmd": f"timeout 900 ./check {pid} --tier quick",
            "thorough_cmd": f"timeout 7200 ./check {pid} --tier thorough",
            "evidence_file": f"/verif/evidence/{pid}.json",
            "replay_cmd_template": f"./check {pid} --replay {{path}}",
            "engine": c["engine"],
            "level_claimed": {"category": "exploration", "text": c["text"], "design_ref": c["design_ref"]},
            "level_note": c["note"],
            "technique": c["technique"],
        })
    engines = {}
    for pid, c in CHECKS.items():
        engines.setdefault(c["engine"], []).append(pid)
    engine_paths = {
        "controller-sim": "sim/controller_sim.py", "timer-sim": "checks/c09.py", "history-sim": "sim/history_sim.py",
        "noise-sim": "checks/c13.py", "storage-sim": "checks/c20.py", "alias-sim": "checks/c15.py",
        "prange-sim": "sim/threads.py", "mpi-sim": "sim/ranks.py",
    }
    na = [{"property_id": k, "reason": v} for k, v in sorted(NA.items())]
    na += [{"property_id": k, "reason": v} for k, v in sorted(PENDING.items()) if k not in CHECKS]
    doc = {
        "version": 1,
        "setup_cmd": "/venv/bin/python /verif/sim/setup_check.py",
        "hooks": {
            "guard": "PY_PDE_VERIF",
            "enable": "no hooks exist in /repo: every seam is reached from outside (module attributes time/jit/prange, Controller._get_current_time, rng=, fake mpi4py/numba_mpi on sys.path, NUMBA_DISABLE_JIT); the guard name is reserved only",
            "baseline_off_cmd": "cd /repo && /venv/bin/python -m pytest -ra -q -p no:cacheprovider --timeout=900 --continue-on-collection-errors",
            "source_commits": [],
            "add_only": True,
        },
        "engines": [{"name": n, "path": engine_paths.get(n, ""), "serves_properties": sorted(p),
                     "kind_free_text": "seeded deterministic simulation engine (plan -> execute -> oracle, ddmin, replay)"}
                    for n, p in sorted(engines.items())],
        "checks": checks,
        "notes": "Deterministic simulation with fault injection; see DESIGN.md. One seed (VERIF_SEED) decides every plan; each plan runs in a forked child of a pristine interpreter; violations are minimised and written to replays/<id>-<hash>.json; ./check <id> --replay <file> reproduces them. Exit 2 + HARNESS-ERROR means the machinery itself failed. Genuine defects found and repaired: see known_findings.json.",
        "not_applicable": na,
    }
    with open(os.path.join(ROOT, "MANIFEST.json"), "w") as f:
        json.dump(doc, f, indent=1)
        f.write("\n")
    print("MANIFEST.json written:", len(checks), "checks,", len(na), "not applicable")


if __name__ == "__main__":
    main()
