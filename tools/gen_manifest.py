#!/usr/bin/env python3
"""Writes /verif/MANIFEST.json from the table below (keeps it valid at all times)."""
import json
import os

ROOT = os.path.dirname(os.path.dirname(os.path.abspath(__file__)))

NA = {
    "C01": "an operator is a fixed map of the padded array: pure function of (grid, operator, options, field); no schedule, clock, fault or history for a simulator to vary (its threaded execution is decided under C03)",
    "C02": "ghost cells are an affine function of field and BC data evaluated in one synchronous call; pure function of its input",
    "C05": "algebraic identity between stencil weights and cell volumes quantified over grids and fields; the per-step corollary follows from the identity and involves no schedule or fault",
    "C06": "one step of each scheme is a pure function of (rate, dt, state, t); the event-loop aspects (segmentation by trackers, ending at the requested time) are decided under C07/C08",
    "C10": "interpreted vs compiled vs expression-built rate at one (state, t) is a pure function of (equation, parameters, state, t); history effects of the caches are decided under C04",
    "C11": "text -> value is a pure function of (program, arguments); quantified over programs, a generator/translation-validation problem, not a simulation target",
    "C12": "pure geometry; no schedule, clock, fault or interleaving",
    "C14": "serialisation round trips are synchronous, in memory and total; no partial state a crash point could expose; storages with real I/O are outside the statement",
    "C16": "interpolation/insertion at a point is a pure function of (field, point, bc); its one history-dependent aspect (cached interpolator) is decided under C04",
    "C18": "a direct sparse solve: pure function of (grid, bc, rhs)",
    "C19": "orthonormality of bases and component order are pure functions of (grid, point, field)",
}

PENDING = {
}

CHECKS = {
    "C03": dict(
        engine="prange-sim", design_ref="DESIGN.md 4.1",
        technique="deterministic simulation of numba prange kernels: the real kernel source run by 2-5 simulated worker threads, a seeded scheduler (random walk / PCT / chunk-border / starvation) deciding the interleaving at every array load and store; bit-equality with serial execution, plus agreement of all public routes as the per-run oracle",
        text="Every kernel py-pde would compile with parallel=True (2-d/3-d Cartesian and cylindrical operators) is executed in python mode with its prange loop body handed to baton-passing threads; shared state is exactly what numba shares (arrays, closure cells, buffers allocated before the loop), private state what numba privatises. Seeded search over grids, operators and options, thresholds on both sides of the grid size, worker counts (also more workers than rows), partitions (static, round-robin, reversed, dynamic) and schedules; result must be bit-identical to serial. On every run the other routes of C03 (field method, make_operator with/without out, interpreted vs compiled ghost-cell setter, scipy backend, sparse Laplace matrix, operator built on the other side of the threshold) are compared at rtol 1e-10.",
        note="Trusts numba's documented prange semantics and that CPython executes the same kernel source as LLVM would compile; numba's own parfor lowering and thread pool are replaced, not tested (the thorough tier adds an uncontrolled real-thread JIT confirmation). Kernels with loop-carried scalars would be reported unsupported (none today).",
    ),
    "C09": dict(
        engine="timer-sim", design_ref="DESIGN.md 4.5",
        technique="deterministic simulation of interrupt timers under a simulated clock: seeded non-decreasing query histories (stalls, exact hits, one-ulp-early/late, clock jumps, queries before the previous answer, copies) checked call by call against an independent lattice model per interrupt class",
        text="Each history initialises one deterministic interrupt object (constant, fixed, logarithmic, geometric; also via parse_interrupt) and asks up to 200 non-decreasing times composed of clock-fault moves; every answer is checked for not-earlier-than-query, strictly-later-than-previous, membership in the defining set, no needless skip, and infinity forever after exhaustion. About 150k histories per quick run.",
        note="Reference models written from the documentation. Domain: periods >= 2e-9*max(1,|t|), geometric factor-1 in [1e-8,100], logarithmic factor in [1,4.2]; answers within a few ulp of a threshold accept both outcomes. copy() of a live FixedInterrupts is outside the property (counted, not asserted).",
    ),
    "C13": dict(
        engine="noise-sim", design_ref="DESIGN.md 4.6",
        technique="deterministic simulation with the simulator owning the random source: a recording numpy Generator behind the rng= seam logs every draw, the log is replayed into an independent reference SDE integrator; tracker schedules that cut the run into segments are the schedule dimension",
        text="Real eq.solve runs (euler, milstein, implicit; numpy backend, numba backend in python mode) on grids with non-uniform cell volumes, all field ranks and collections, scalar/per-component/per-field/multiplicative variances and all noise interpretations. Checked: exactly one standard_normal(shape) per step and nothing else drawn, draws are the successive draws of the seeded bit generator, every per-step state equals the documented formula to 1e-12, bit-identical reproducibility also under different tracker sets, zero variance = deterministic run with zero draws.",
        note="Reference integrator is ~20 lines of numpy written from the property text. Implicit solver checked for linear rates (closed-form fixed point). numba path: formula only (the property claims no bit reproducibility there).",
    ),
    "C15": dict(
        engine="alias-sim", design_ref="DESIGN.md 4.7",
        technique="deterministic simulation of several handles acting on shared memory: seeded histories of constructions, derived views, sentinel writes, in-place/binary/unary arithmetic, operators with out=, storage round trips, dropped handles + gc, checked after every operation against an executable buffer/handle memory model",
        text="Up to 10 live handles (fields, collections, component views, raw arrays) over shadow buffers including ghost cells; after every operation every handle must show exactly the model's bytes, np.shares_memory must equal the model's alias relation for all pairs, operands of binary operations are unchanged, in-place operations touch valid cells only, out= returns out. Weakest fit of the family (sequential API, no clock, no fault): what the family contributes is the seeded multi-handle history with op-by-op reference model, replay and minimisation; an aliasing bug is an ordering bug between two handles.",
        note="Model written from the documentation; where it is silent (does a field built from a user array with ghost cells alias it?) the relation is observed once and only numpy semantics are relied on afterwards. Arithmetic results are compared at 1e-9 then adopted; copies, assignments and sentinels bit for bit.",
    ),
    "C17": dict(
        engine="mpi-sim", design_ref="DESIGN.md 4.8",
        technique="deterministic simulation of MPI ranks: the real GridMesh/_MPIBC/NumbaMPIBackend/ExplicitMPISolver code run by 2-6 forked rank processes over a fake mpi4py whose every call is granted by a seeded scheduler (who runs next, per-message delivery delay and cross-channel reordering, rank stalls after send-before-receive); result compared with the serial run on the undivided grid, deadlock and unreceived-message detection, bounded liveness",
        text="Operator-level script (split_field_mpi, apply_operator through the interpreted exchange, the numba_mpi operator and the generated sender/setter chain with poisoned ghost cells, combine) and end-to-end script (eq.solve with solver=explicit_mpi incl. adaptive error allreduce, integral allreduce, collections, trackers on rank 0) on all grid classes, every admissible decomposition with 2-6 ranks incl. uneven and single-cell chunks and two chunks on a periodic axis. Oracles: combined result equals the undivided grid (bit-identical on UnitGrid), no deadlock under eager sends, every message received exactly once, mesh tiles the grid, split/combine identity with and without ghost cells, neighbour symmetry, link tags agree and are unique. Exploration: MPI programs without wildcard receives are schedule-deterministic unless they deadlock, so the schedule search mainly decides deadlock freedom and protocol consistency; the configuration search decides the rest.",
        note="Transport model: reliable, eager, non-overtaking per (source,dest,tag); rendezvous sends, loss, duplication, crashes not modelled (not MPI semantics). mpi4py/numba_mpi are stubs; pde/backends/numba_mpi/overloads.py (compiled-only) is not exercised. Documented limitations (hollow cylinders, curvature on one-cell chunks, inhomogeneous constant conditions) are skipped by exact message match and counted.",
    ),
    "C20": dict(
        engine="storage-sim", design_ref="DESIGN.md 4.9",
        technique="deterministic simulation with fault injection on the storage API: seeded histories of sessions, appends, clears, reads and derived views on pools of storages and fields, with injected faults (aborted sessions, refused appends, raising apply functions, simulated runs stopped or aborted by another tracker) against a list-of-frames reference model",
        text="8-45 operations per history on up to 5 live MemoryStorage objects and 6 fields of all classes; after every operation every storage is compared with its model (times, len, every frame byte for byte, no aliasing between stored frames, read-backs and live fields; failed operations leave nothing half-written; mode semantics; derived views consistent). Real simulations under the simulated clock write through StorageTracker and are stopped or aborted mid-session.",
        note="Model written from the docstrings; where the documentation is silent both outcomes are accepted (append outside a session, implicit times, frames exactly on an extract_time_range bound) and counted in the evidence.",
    ),
    "C04": dict(
        engine="history-sim", design_ref="DESIGN.md 4.2",
        technique="deterministic simulation of a user session: seeded histories of public-API operations with injected environment events (gc, cache clears, dropped objects, poisoned re-allocation), each operation compared with the same call in a pristine forked interpreter under another hash seed",
        text="Seeded histories of 4-25 operations (operators through five routes, interpolation, collections that re-link member data, evolution rates, solves, Poisson solves, measures) over small pools of grids, fields, boundary conditions and equations chosen to coincide in some attributes (equal geometry/different class, bounds -1 vs -2, value 0 vs derivative 0, same spec/distinct objects). After every operation the value is compared with a zygote child that imported pde and computed nothing, given the current field contents. Exploration: the space of histories is unbounded; the search is biased to attribute collisions, which is where cache keys fail.",
        note="Trusts: the reference interpreter itself (same code, no history); numba backend in python mode (caches are Python-level and identical with JIT); comparison rtol 1e-9. sympy's own caches are warmed on both sides. Global configuration fixed per history.",
    ),
    "C07": dict(
        engine="controller-sim", design_ref="DESIGN.md 4.3",
        technique="deterministic simulation of the run loop: seeded tracker schedules under a simulated wall clock (stall/jump/slow-node faults), differential oracle against the tracker-free run and the single-step reference trajectory",
        text="Seeded search over (solver, backend, dt, range, tracker set, interrupt schedules, wall-clock profile); every plan runs the real Controller/TrackerCollection/trackers/interrupts/solvers under a simulated clock three times (no trackers, trackers, single-step reference) and checks step count, t_final, bit-identical final state for autonomous equations, and that the caller's state is untouched. Sampling, not proof: exploration is the right level because the property quantifies over unboundedly many schedules of a sequential event loop that has no finite state abstraction worth enumerating.",
        note="Trusts: numpy arithmetic; that python-mode execution of the numba stepping loops (same source) represents the compiled ones (a JIT sample is run in the thorough tier); the SimClock patches cover every clock read of the run loop (grep-verified list in sim/clock.py). Domain: N<=2000, <=5 trackers, |t|/dt<=1e5.",
    ),
    "C08": dict(
        engine="controller-sim", design_ref="DESIGN.md 4.4",
        technique="deterministic simulation with fault injection: seeded stop faults (StopIteration/FinishedSimulation at chosen tracker calls, NaN corruption, wall-clock expiry) in the simulated run loop; history checked against the fault-free run, the schedule lattice and the reference trajectory",
        text="As C07 plus adaptive steppers and stop faults placed where in-flight state exists (first handle, final handle, rounds with several due trackers, several raisers). The recorded per-tracker call history is checked for strictly increasing genuine simulation times, exact service of every scheduled time of constant intervals, and - under faults - prefix equality with the fault-free history up to and including the stop round, end time/state/reason and exactly-once finalisation. Bounded liveness (run loop must terminate within a step cap) is checked through the simulated clock.",
        note="Trusts the fault-free run as the definition of 'due at that time' (itself checked against the lattice oracle), numpy arithmetic, python-mode numba loops. Times closer than the run loop's own tolerance (1e-6*dt) are treated as equal. Domain as C07.",
    ),
}

# what the engines learnt from the independently seeded changes (DESIGN.md section 10)
ADDENDA = {
    "C03": "History elements: a boundary value linked to a user array and changed in place between evaluations of the same objects; the numba operator of a sibling condition built first in the same process; anti-periodic conditions; operator objects called with complex data after real data. Thorough tier: the route oracle again on a sample of plans with real JIT.",
    "C04": "Fields take labels from a pool of three (py-pde compares labels before it re-uses prepared functions); motifs: one rank-agnostic equation on [scalar, vector] and [vector, scalar], one equation with conditions given by name on two grids that differ in one attribute only (periodicity, bounds differing by parts per million, tiny bounds); sibling conditions incl. anti-periodic, Robin with another constant, closures from one factory; one shared user_funcs dictionary.",
    "C07": "A quarter of the plans carry an earlier use of the same equation, initial-state, solver and sometimes controller objects (another range, a smaller step); equations with a post-step hook that has memory; Milstein solver on library equations; a stepper that does not perform one step of dt when asked for exactly that is a violation of its own.",
    "C08": "Adaptive solvers include the scipy solver (exact service of every scheduled time).",
    "C13": "Interpretation given to the constructor or assigned afterwards; demographic-type variance that vanishes where its derivative does not; on the numba path a step may not use fewer normal numbers than the state has noisy entries.",
    "C15": "copy.deepcopy and pickle as kinds of copy; collections from lists, tuples and mappings; 8% single-precision plans (float32/complex64, operations without arithmetic).",
    "C17": "Operator object used a second time with data of the other dtype; a persistent solver object first run on a grid differing only in the periodicity of one axis; the grid object must be unchanged by decomposition; setup invariants (tiling, split/combine, neighbours, link flags) also for decompositions of up to 160 sub-grids, far beyond the number of simulated ranks.",
    "C20": "Sessions may switch from real to complex fields; 40% of the histories verify lightly (stored arrays compared directly) so that the oracle's own reads cannot mask a broken read path.",
}
for _k, _v in ADDENDA.items():
    CHECKS[_k]["text"] += " " + _v


def main():
    checks = []
    for pid, c in sorted(CHECKS.items()):
        checks.append({
            "property_id": pid,
            "quick_cmd": f"timeout 900 ./check {pid} --tier quick",
            "thorough_cmd": f"timeout 7200 ./check {pid} --tier thorough",
            "evidence_file": f"/verif/evidence/{pid}.json",
            "replay_cmd_template": f"./check {pid} --replay {{path}}",
            "engine": c["engine"],
            "level_claimed": {"category": "exploration", "text": c["text"], "design_ref": c["design_ref"]},
            "level_note": c["note"],
            "technique": c["technique"],
        })
    engines = {}
    for pid, c in CHECKS.items():
        engines.setdefault(c["engine"], []).append(pid)
    engine_paths = {
        "controller-sim": "sim/controller_sim.py", "timer-sim": "checks/c09.py", "history-sim": "sim/history_sim.py",
        "noise-sim": "checks/c13.py", "storage-sim": "checks/c20.py", "alias-sim": "checks/c15.py",
        "prange-sim": "sim/threads.py", "mpi-sim": "sim/ranks.py",
    }
    na = [{"property_id": k, "reason": v} for k, v in sorted(NA.items())]
    na += [{"property_id": k, "reason": v} for k, v in sorted(PENDING.items()) if k not in CHECKS]
    doc = {
        "version": 1,
        "setup_cmd": "/venv/bin/python /verif/sim/setup_check.py",
        "hooks": {
            "guard": "PY_PDE_VERIF",
            "enable": "no hooks exist in /repo: every seam is reached from outside (module attributes time/jit/prange, Controller._get_current_time, rng=, fake mpi4py/numba_mpi on sys.path, NUMBA_DISABLE_JIT); the guard name is reserved only",
            "baseline_off_cmd": "cd /repo && /venv/bin/python -m pytest -ra -q -p no:cacheprovider --timeout=900 --continue-on-collection-errors",
            "source_commits": [],
            "add_only": True,
        },
        "engines": [{"name": n, "path": engine_paths.get(n, ""), "serves_properties": sorted(p),
                     "kind_free_text": "seeded deterministic simulation engine (plan -> execute -> oracle, ddmin, replay)"}
                    for n, p in sorted(engines.items())],
        "checks": checks,
        "notes": "Deterministic simulation with fault injection; see DESIGN.md. One seed (VERIF_SEED) decides every plan; each plan runs in a forked child of a pristine interpreter; violations are minimised and written to replays/<id>-<hash>.json; ./check <id> --replay <file> reproduces them. Exit 2 + HARNESS-ERROR means the machinery itself failed. Genuine defects found and repaired: see known_findings.json.",
        "not_applicable": na,
    }
    with open(os.path.join(ROOT, "MANIFEST.json"), "w") as f:
        json.dump(doc, f, indent=1)
        f.write("\n")
    print("MANIFEST.json written:", len(checks), "checks,", len(na), "not applicable")


if __name__ == "__main__":
    main()
