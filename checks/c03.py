"""C03 - every route to the same operator-with-BC result agrees.
Engine: prange-sim (sim/threads.py) + route oracle; DESIGN.md 4.1.

What is simulated: the clause "multi-threaded versus serial execution of the compiled kernels ...
all thread counts/schedules".  Every kernel that py-pde would compile with parallel=True is run by
W simulated worker threads whose interleaving at every array load/store is decided by the seeded
scheduler, and must be bit-identical to its serial execution.  The other routes of C03 are the
oracle evaluated on every run.
"""

from __future__ import annotations

import copy

import numpy as np

from sim import threads
from sim.core import EventLog, digest_of, fbits, violation

import os

PROPERTY = "C03"
ISOLATE = True
# JIT sample of the thorough tier (not simulation): the kernels are really compiled, so they cannot be replaced by the
# rewritten python kernels; the schedule of numba's threads is then nobody's decision and only the route oracle is exercised
REAL_JIT = os.environ.get("NUMBA_DISABLE_JIT") == "0"
TIERS = {
    "quick": {"runs": 5000, "budget_s": 150, "timeout_s": 60, "chunk": 16, "det_sample": 48, "det_runs": 300},
    "thorough": {"runs": 120000, "budget_s": 1500, "timeout_s": 120, "chunk": 16, "det_sample": 64, "det_runs": 1000},
}
RULE = ("seeded plans: (grid class/shape/bounds/periodicity, registered operator + documented options, dtype, boundary condition, "
        "multithreading threshold just below/above the grid size, worker count 2-5, partition policy, scheduling strategy, "
        "scheduler seed); non-trivial = at least one simulated parallel region with >= 1 baton switch; distinct = distinct "
        "(kernel set, workers, partition, hash of the scheduler's choice sequence)")
PROBES = ["sched/regions", "sched/switches", "sched/switch_between_read_and_write", "probes/serial_branch_below_threshold",
          "probes/more_workers_than_rows", "probes/nine_point_stencil_prologue", "probes/route_scipy", "probes/route_sparse_matrix",
          "probes/route_compiled_ghost_setter", "probes/vectorized_operator_regions", "probes/dynamic_partition",
          "probes/linked_value_sequence", "probes/sibling_condition_built_first", "probes/antiperiodic_axis",
          "probes/operator_object_reused_with_other_dtype"]
COMPONENTS = {
    "real": ["kernel source of pde.backends.numba.operators.{cartesian,cylindrical_sym} (executed by CPython, rewritten only at the "
             "prange loop), operator factories and registry, interpreted and compiled ghost-cell setters, fields, grids, scipy "
             "backend operators, sparse Laplace matrices"],
    "stub": ["numba's thread pool and parfor scheduler (replaced by the simulated workers)", "LLVM code generation"],
}
ASSUMPTIONS = [
    "numba's documented prange semantics: iterations independent, variables assigned in the loop body private, arrays and "
    "closure variables shared, code before/after the loop runs once on one thread, no nested parallelism",
    "kernels with a loop-carried scalar (numba reduction) are not modelled: they are reported as unsupported and run serially",
    "python-mode execution: pre-emption granularity is one array load/store (finer than a machine-level torn write, which "
    "float64/complex128 element stores on aligned arrays do not exhibit)",
    "route agreement is compared at rtol=1e-10 (different summation order between routes)",
]

BC_SCALAR = [{"value": 0}, {"derivative": 0}, {"curvature": 0}, {"value": 1.5}, {"derivative": -1},
             {"type": "mixed", "value": 1, "const": 2}, "auto_periodic_neumann", "auto_periodic_dirichlet",
             {"low": {"value": 1}, "high": {"derivative": 2}}, {"curvature": 1}, {"value_expression": "2.5"}]
BC_TENSOR = [{"value": 0}, {"derivative": 0}, "auto_periodic_neumann", "auto_periodic_dirichlet", {"value": 1.0}]
AXES = {"UnitGrid": "xyz", "CartesianGrid": "xyz", "PolarSymGrid": "r", "SphericalSymGrid": "r", "CylindricalSymGrid": "rz"}
RANK_IN = {"laplace": 0, "gradient": 0, "gradient_squared": 0, "divergence": 1, "vector_gradient": 1, "vector_laplace": 1,
           "tensor_divergence": 2}


def prepare():
    from sim.prewarm import prewarm_pde

    prewarm_pde()


# ======================================================================================
# plans
# ======================================================================================


def gen_plan(rng, tier, idx):
    r = rng.random()
    if r < 0.40:
        nd = 2
    elif r < 0.62:
        nd = 3
    elif r < 0.92:
        nd = "cyl"
    else:
        nd = rng.choice([1, "polar", "sph"])
    if nd in (1, 2, 3):
        hi = {1: 8, 2: 7, 3: 5}[nd]
        shape = [rng.randint(1 if rng.random() < 0.1 else 2, hi) for _ in range(nd)]
        periodic = [rng.random() < 0.3 for _ in range(nd)]
        if rng.random() < 0.3:
            grid = {"cls": "UnitGrid", "shape": shape, "periodic": periodic}
        else:
            bounds = []
            for n in shape:
                lo = rng.choice([0.0, -1.0, 0.5, -2.0])
                width = n * rng.choice([1.0, 0.5, 0.25]) if rng.random() < 0.5 else rng.uniform(0.5, 3.0)
                bounds.append([lo, lo + width])
            grid = {"cls": "CartesianGrid", "bounds": bounds, "shape": shape, "periodic": periodic}
    elif nd == "cyl":
        shape = [rng.randint(2, 6), rng.randint(2, 6)]
        rad = rng.choice([2.0, 1.0, 3.5]) if rng.random() < 0.6 else [rng.choice([0.5, 1.0]), rng.choice([2.0, 3.0])]
        z0 = rng.choice([0.0, -1.0, -2.0])
        grid = {"cls": "CylindricalSymGrid", "radius": rad, "bounds_z": [z0, z0 + rng.choice([1.0, 2.0, 3.3])], "shape": shape,
                "periodic": [False, rng.random() < 0.3]}
    else:
        rad = rng.choice([2.0, 3.0]) if rng.random() < 0.5 else [1.0, 3.0]
        grid = {"cls": "PolarSymGrid" if nd == "polar" else "SphericalSymGrid", "radius": rad, "shape": [rng.randint(2, 8)]}
    cls = grid["cls"]
    ops = ["laplace", "gradient", "gradient_squared", "divergence", "vector_gradient", "vector_laplace", "tensor_divergence"]
    if cls == "SphericalSymGrid":
        ops = ["laplace", "gradient", "gradient_squared"]
    if cls == "PolarSymGrid":
        ops = ["laplace", "gradient", "gradient_squared", "divergence", "vector_gradient", "tensor_divergence"]
    if rng.random() < 0.1:
        ax = rng.choice(AXES[cls][: len(grid["shape"])])
        name = rng.choice([f"d_d{ax}", f"d_d{ax}_forward", f"d_d{ax}_backward", f"d2_d{ax}2"])
        rank_in = 0
    else:
        name = rng.choice(ops)
        rank_in = RANK_IN[name]
    kwargs = {}
    cart = cls in ("UnitGrid", "CartesianGrid")
    if name == "laplace" and cart and len(grid["shape"]) == 2 and rng.random() < 0.45:
        kwargs["corner_weight"] = rng.choice([1 / 3, 0.5, 0.0, 0.25])
    if name in ("gradient", "divergence", "vector_gradient", "tensor_divergence") and cart and rng.random() < 0.4:
        kwargs["method"] = rng.choice(["central", "forward", "backward"])
    if name == "gradient_squared" and rng.random() < 0.5:
        kwargs["central"] = rng.random() < 0.5
    if name == "laplace" and cls == "SphericalSymGrid" and rng.random() < 0.5:
        kwargs["conservative"] = rng.random() < 0.5
    size = int(np.prod(grid["shape"]))
    tmode = rng.random()
    threshold = 1 if tmode < 0.55 else (size if tmode < 0.8 else size + 1)
    return {
        "engine": "prange-sim", "grid": grid, "op": name, "rank_in": rank_in, "kwargs": kwargs,
        "dtype": "complex" if rng.random() < 0.2 else "float", "field_seed": rng.randrange(1 << 30),
        "bc": rng.choice(BC_SCALAR if rank_in == 0 else BC_TENSOR), "threshold": threshold,
        # a boundary value linked to a user array (bc.link_value) that is changed in place between two evaluations of
        # the same operator / setter objects: every route has to follow the live value
        "linked": [rng.uniform(-2, 2), rng.uniform(-2, 2)] if rng.random() < 0.2 else None,
        # periodic axes carry "periodic" or "anti-periodic" conditions
        "antiperiodic": rng.random() < 0.35,
        # the same process has already built the numba operator for a sibling condition on an equal grid (same kind of
        # condition, one attribute perturbed): the cached implementation of the sibling must not be handed out
        "sibling_first": rng.random() < 0.3,
        "sched": {"seed": rng.randrange(1 << 30), "workers": rng.choice([2, 2, 3, 3, 4, 5]),
                  "partition": rng.choice(["static", "static", "roundrobin", "reversed", "dynamic"]),
                  "strategy": rng.choice(["random", "random", "pct", "chunk", "stall"]),
                  "p_switch": rng.choice([0.05, 0.3, 0.7, 1.0]), "pct_depth": rng.randint(1, 3), "chunk": rng.randint(1, 3),
                  "max_decisions": 4000},
        # operator objects are used twice: first with real, then with complex data of the same shape (drawn last)
        "reuse_dtype": rng.random() < 0.3,
    }


# ======================================================================================
# execution
# ======================================================================================


def _build_grid(spec):
    import pde

    c = spec["cls"]
    if c == "UnitGrid":
        return pde.UnitGrid(spec["shape"], periodic=spec["periodic"])
    if c == "CartesianGrid":
        return pde.CartesianGrid(spec["bounds"], spec["shape"], periodic=spec["periodic"])
    rad = spec["radius"]
    rad = tuple(rad) if isinstance(rad, list) else rad
    if c == "PolarSymGrid":
        return pde.PolarSymGrid(rad, spec["shape"][0])
    if c == "SphericalSymGrid":
        return pde.SphericalSymGrid(rad, spec["shape"][0])
    return pde.CylindricalSymGrid(rad, tuple(spec["bounds_z"]), spec["shape"], periodic_z=spec["periodic"][1])


def _sibling(kind):
    """A condition of the same kind with one attribute perturbed."""
    if isinstance(kind, str):
        return "auto_periodic_dirichlet" if kind == "auto_periodic_neumann" else "auto_periodic_neumann"
    out = copy.deepcopy(kind)
    if "low" in out:
        out["low"] = _sibling(out["low"])
        return out
    if out.get("type") == "mixed":
        out["const"] = out.get("const", 0) + 1  # same value, other constant
        return out
    for k, v in out.items():
        if isinstance(v, (int, float)):
            out[k] = v + 1
            return out
        if isinstance(v, str):
            out[k] = f"({v}) + 1"
            return out
    return out


def _bc(kind, gspec, anti=False):
    names = AXES[gspec["cls"]][: len(gspec["shape"])]
    per = gspec.get("periodic") or [False] * len(names)
    if isinstance(kind, str):
        if anti and any(per):
            # written out per axis: anti-periodic where the grid is periodic, the named default elsewhere
            other = {"derivative": 0} if kind.endswith("neumann") else {"value": 0}
            return {name: ("anti-periodic" if p else other) for name, p in zip(names, per)}
        return kind
    out = {}
    for name, p in zip(names, per):
        if p:
            out[name] = "anti-periodic" if anti else "periodic"
        elif "low" in kind:
            out[name + "-"], out[name + "+"] = kind["low"], kind["high"]
        else:
            out[name] = kind
    return out


def _same_bytes(a, b):
    return a.shape == b.shape and a.dtype == b.dtype and (a.tobytes() == b.tobytes() or bool(np.array_equal(a, b, equal_nan=True)))


def execute(plan):
    import pde
    from pde.backends import get_backend

    log = EventLog()
    log.add("plan", digest_of(plan))
    stats = {"sched": {}, "probes": {}, "faults": {}, "routes": {}}
    viol = None

    def probe(name, n=1):
        stats["probes"][name] = stats["probes"].get(name, 0) + n

    def fail(klass, detail, key=None):
        nonlocal viol
        if viol is None:
            viol = violation(klass, detail, key)

    if not REAL_JIT:
        threads.install()
    pde.config["backend.numba.multithreading"] = "always"
    pde.config["backend.numba.multithreading_threshold"] = int(plan["threshold"])
    gspec = plan["grid"]
    grid = _build_grid(gspec)
    size = int(np.prod(grid.shape))
    rank_in = plan["rank_in"]
    fcls = (pde.ScalarField, pde.VectorField, pde.Tensor2Field)[rank_in]
    rng = np.random.default_rng(plan["field_seed"])
    shape = (grid.dim,) * rank_in + tuple(grid.shape)
    data = rng.uniform(-1, 1, size=shape)
    if plan["dtype"] == "complex":
        data = data + 1j * rng.uniform(-1, 1, size=shape)
    field = fcls(grid, data)
    anti = bool(plan.get("antiperiodic"))
    bc = _bc(plan["bc"], gspec, anti)
    name, kw = plan["op"], dict(plan["kwargs"])
    backend = get_backend("numba")
    if plan.get("sibling_first"):
        try:
            sib = _bc(_sibling(plan["bc"]), gspec, anti and not isinstance(plan["bc"], str))
            g_sib = _build_grid(gspec)
            op_sib = g_sib.make_operator(name, sib, backend="numba", **kw)
            op_sib(np.array(data, copy=True))
            if anti and any(gspec.get("periodic") or []):
                g_sib.make_operator(name, _bc(plan["bc"], gspec, False), backend="numba", **kw)(np.array(data, copy=True))
            probe("sibling_condition_built_first")
        except Exception as err:  # noqa: BLE001 - the sibling is only there to populate caches
            log.add("sibling-refused", type(err).__name__)

    def inadmissible(err):
        log.add("inadmissible", type(err).__name__)
        stats["routes"]["inadmissible_configuration"] = 1
        return {"violation": None, "digest": log.digest(), "stats": stats, "nontrivial": False, "sig": digest_of(plan),
                "events_head": log.head[:40]}

    # ---- the kernel itself: original source, rewritten source run serially, rewritten source run by simulated threads
    try:
        bcs = grid.get_boundary_conditions(bc, rank=rank_in)
        info = backend.get_operator_info(grid, name)
        field.set_ghost_cells(bcs)
        op = backend.make_operator_no_bc(grid, name, **kw)
    except Exception as err:  # noqa: BLE001 - this (grid, operator, bc) combination is rejected by every route alike
        return inadmissible(err)
    full = np.array(field._data_full, copy=True)
    out_shape = (grid.dim,) * info.rank_out + tuple(grid.shape)

    def run(mode):
        sched = threads.Scheduler(plan["sched"], mode=mode)
        threads.ACTIVE = sched
        arr = np.array(full, copy=True)
        out = np.full(out_shape, np.nan, dtype=full.dtype)
        try:
            op(arr, out)
        finally:
            threads.ACTIVE = None
        return arr, out, sched

    try:
        arr0, out0, _ = run("original")
    except Exception as err:  # noqa: BLE001 - ghost cells were set and the operator was built, so the kernel must work
        fail("C03/kernel-raised", f"{name}{kw} on {gspec}: the kernel raised {type(err).__name__}: {err}")
        log.add("verdict", viol["class"])
        return {"violation": viol, "digest": log.digest(), "stats": stats, "nontrivial": False, "sig": digest_of(plan),
                "events_head": log.head[:40]}
    arr1, out1, _ = run("serial")
    if not (_same_bytes(out0, out1) and _same_bytes(arr0, arr1)):
        raise threads.SimError(f"rewriting the prange loop of {name} changed its serial result")
    try:
        arr2, out2, sched = run("parallel")
    except threads.SimError:
        raise
    except Exception as err:  # noqa: BLE001 - a simulated worker raised
        fail("C03/parallel-kernel-raised", f"{name} on {gspec}: simulated parallel execution raised {type(err).__name__}: {err}")
        arr2, out2, sched = arr1, out1, threads.Scheduler(plan["sched"], mode="serial")
    for k, v in sched.stats.items():
        stats["sched"][k] = v
    regions = sched.stats["regions"]
    log.add("kernel", name, kw, regions, sched.region_sigs, fbits(out1))
    if anti and any(gspec.get("periodic") or []):
        probe("antiperiodic_axis")
    if regions == 0 and plan["threshold"] > size:
        probe("serial_branch_below_threshold")
    if regions and sched.W > grid.shape[0]:
        probe("more_workers_than_rows")
    if regions and "corner_weight" in kw and kw["corner_weight"] != 0:
        probe("nine_point_stencil_prologue")
    if regions > 1:
        probe("vectorized_operator_regions")
    if regions and sched.partition == "dynamic":
        probe("dynamic_partition")
    if not _same_bytes(out2, out1):
        bad = np.argwhere(~np.isclose(out2, out1, rtol=0, atol=0, equal_nan=True))
        fail("C03/parallel-differs-from-serial",
             f"{name}{kw} on {gspec} dtype={plan['dtype']}: result of {sched.W} simulated threads ({sched.partition}, {sched.strategy}) differs from the "
             f"serial result at {len(bad)} cells, first {bad[:3].tolist()}: {out2[tuple(bad[0])]!r} vs {out1[tuple(bad[0])]!r}")
    if not _same_bytes(arr2, arr1):
        fail("C03/parallel-input-differs", f"{name}{kw} on {gspec}: the input array after the simulated parallel call differs from the serial call")

    # ---- the other public routes, all against the serial kernel result
    ref = out1
    # absolute tolerance from the size of the terms that are summed, not from the result (which may cancel to zero)
    inv_dx = np.concatenate([1 / np.asarray(grid.discretization, dtype=float), 1 / np.asarray(grid.discretization, dtype=float) ** 2])
    term_scale = float(np.nanmax(np.abs(full))) * float(np.max(inv_dx)) if full.size else 0.0
    scale = max(float(np.nanmax(np.abs(ref))) if ref.size else 0.0, term_scale)
    atol = 1e-10 * max(scale, 1e-30)

    def agree(route, value, must=True):
        stats["routes"][route] = stats["routes"].get(route, 0) + 1
        value = np.asarray(value)
        ok = value.shape == ref.shape and bool(np.allclose(value, ref, rtol=1e-10, atol=atol, equal_nan=True))
        log.add("route", route, ok)
        if not ok:
            diff = float(np.nanmax(np.abs(value - ref))) if value.shape == ref.shape else float("nan")
            fail("C03/route-disagrees", f"{name}{kw} bc={bc} on {gspec} dtype={plan['dtype']}: route `{route}` differs from make_operator_no_bc after set_ghost_cells "
                 f"by {diff:.3e} (scale {scale:.3e})", key=f"C03/route-disagrees/{route}")

    def fresh_field():
        return fcls(grid, np.array(data, copy=True))

    try:
        # the operator as it is built when the grid is below / above the multithreading threshold
        other = size + 1 if plan["threshold"] <= size else 1
        pde.config["backend.numba.multithreading_threshold"] = int(other)
        try:
            op_other = backend.make_operator_no_bc(grid, name, **kw)
            out_o = np.full(out_shape, np.nan, dtype=full.dtype)
            op_other(np.array(full, copy=True), out_o)
        finally:
            pde.config["backend.numba.multithreading_threshold"] = int(plan["threshold"])
        agree("operator built on the other side of the multithreading threshold", out_o)
        agree("field.apply_operator", fresh_field().apply_operator(name, bc, **kw).data)
        f2 = fresh_field()
        res = f2.apply_operator(name, bc, **kw)
        outf = res.copy()
        outf.data = np.nan
        res2 = f2.apply_operator(name, bc, out=outf, **kw)
        if res2 is not outf:
            fail("C03/out-not-returned", f"{name}: apply_operator(out=...) returned another object")
        agree("field.apply_operator(out=)", outf.data)
        oper = grid.make_operator(name, bc, backend="numba", **kw)
        # this route is also executed by simulated threads (a second, different schedule)
        threads.ACTIVE = threads.Scheduler({**plan["sched"], "seed": plan["sched"]["seed"] + 1}, mode="parallel")
        try:
            val = oper(np.array(data, copy=True))
        finally:
            s2 = threads.ACTIVE
            threads.ACTIVE = None
        stats["sched"]["regions"] = stats["sched"].get("regions", 0) + s2.stats["regions"]
        stats["sched"]["switches"] = stats["sched"].get("switches", 0) + s2.stats["switches"]
        stats["sched"]["preemption_points"] = stats["sched"].get("preemption_points", 0) + s2.stats["preemption_points"]
        log.add("route-schedule", s2.region_sigs)
        agree("grid.make_operator(numba) under simulated threads", val)
        outa = np.full(out_shape, np.nan, dtype=np.result_type(data.dtype, float))
        oper(np.array(data, copy=True), out=outa)
        agree("grid.make_operator(numba)(out=)", outa)
        # compiled ghost-cell setter (its generated source runs in python mode) + operator without bc
        setter = backend.make_ghost_cell_setter(bcs)
        full2 = np.array(fresh_field()._data_full, copy=True)
        ghost_mask = np.ones(full2.shape, dtype=bool)
        ghost_mask[(...,) + (slice(1, -1),) * grid.num_axes] = False
        full2[ghost_mask] = np.nan
        setter(full2)
        outc = np.full(out_shape, np.nan, dtype=full.dtype)
        op(full2, outc)
        probe("route_compiled_ghost_setter")
        agree("compiled ghost-cell setter + make_operator_no_bc", outc)
    except threads.SimError:
        raise
    except Exception as err:  # noqa: BLE001
        fail("C03/route-raised", f"{name}{kw} bc={bc} on {gspec}: a route raised {type(err).__name__}: {err} although make_operator_no_bc worked")
    # scipy backend (only for default options; documented limitation: uniform discretisation)
    # The scipy operators treat a grid as uniform when its cell sizes agree to np.allclose's default rtol=1e-5 and then
    # use their mean: for nearly (but not exactly) uniform grids they are deliberately approximate, which is their
    # documented limitation ("only supports uniform discretizations"), not a disagreement in the sense of C03.
    disc = np.asarray(grid.discretization, dtype=float)
    spread = float(np.max(np.abs(disc - disc.mean())) / disc.mean()) if disc.size else 0.0
    nearly_uniform = 1e-13 < spread < 1e-3
    if nearly_uniform:
        stats["routes"]["scipy_skipped_nearly_uniform_grid"] = 1
    if not kw and not nearly_uniform:
        sb = get_backend("scipy")
        if name in sb.get_registered_operators(grid):
            try:
                agree("scipy backend", fresh_field().apply_operator(name, bc, backend="scipy").data)
                probe("route_scipy")
            except RuntimeError as err:
                if "not uniform" in str(err):
                    stats["routes"]["scipy_refused_nonuniform"] = 1
                else:
                    fail("C03/route-raised", f"scipy route raised RuntimeError: {err}")
            except Exception as err:  # noqa: BLE001
                fail("C03/route-raised", f"{name} bc={bc} on {gspec}: scipy route raised {type(err).__name__}: {err}")
    # sparse matrix used by the Poisson solvers
    if name == "laplace" and not kw and plan["dtype"] == "float":
        import importlib

        modname = {"UnitGrid": "cartesian", "CartesianGrid": "cartesian", "PolarSymGrid": "polar_sym",
                   "SphericalSymGrid": "spherical_sym", "CylindricalSymGrid": "cylindrical_sym"}[gspec["cls"]]
        mod = importlib.import_module(f"pde.backends.scipy.operators.{modname}")
        common = importlib.import_module("pde.backends.scipy.operators.common")
        try:
            mat, vec = mod._get_laplace_matrix(bcs)
        except (NotImplementedError, RuntimeError, TypeError, ValueError) as err:
            stats["routes"]["sparse_matrix_not_available"] = 1
            log.add("sparse-unavailable", type(err).__name__)
        else:
            agree("sparse Laplace matrix", common.make_laplace_from_matrix(mat, vec)(np.array(data, copy=True)))
            probe("route_sparse_matrix")
    if plan.get("reuse_dtype") and viol is None:
        _reuse_with_other_dtype(plan, grid, gspec, fcls, data, name, kw, bc, bcs, op, out_shape, nearly_uniform, fail, probe, log, stats)
    if plan.get("linked") and viol is None:
        _linked_value_sequence(plan, grid, gspec, fcls, data, name, kw, rank_in, out_shape, backend, fail, probe, log, stats)
    log.add("verdict", viol["class"] if viol else None)
    total_regions = stats["sched"].get("regions", 0)
    return {"violation": viol, "digest": log.digest(), "stats": stats,
            "nontrivial": total_regions > 0 and stats["sched"].get("switches", 0) > 0,
            "sig": digest_of([name, kw, gspec["cls"], plan["sched"]["workers"], plan["sched"]["partition"], sched.region_sigs]),
            "sched_steps": stats["sched"].get("preemption_points", 0), "events_head": log.head[:40]}


def _reuse_with_other_dtype(plan, grid, gspec, fcls, data, name, kw, bc, bcs, op_no_bc, out_shape, nearly_uniform, fail, probe, log, stats):
    """One operator object per backend, called first with real and then with complex data of the same shape: the second
    answer must be the one the reference route gives for the complex data (nothing of the first call may stick)."""
    from pde.backends import get_backend

    d_real = np.array(np.real(data), dtype=float, copy=True)
    d_cplx = d_real + 1j * np.roll(d_real, 1, axis=-1) * 0.75
    fref = fcls(grid, np.array(d_cplx, copy=True))
    try:
        fref.set_ghost_cells(bcs)
        ref = np.full(out_shape, np.nan, dtype=complex)
        op_no_bc(np.array(fref._data_full, copy=True), ref)
    except Exception as err:  # noqa: BLE001 - the reference route itself refuses complex data for this configuration
        log.add("reuse-reference-refused", type(err).__name__)
        return
    inv_dx = np.concatenate([1 / np.asarray(grid.discretization, dtype=float), 1 / np.asarray(grid.discretization, dtype=float) ** 2])
    scale = max(float(np.nanmax(np.abs(ref))) if ref.size else 0.0, float(np.nanmax(np.abs(fref._data_full))) * float(np.max(inv_dx)))
    backends = ["numba"]
    if not kw and not nearly_uniform and name in get_backend("scipy").get_registered_operators(grid):
        backends.append("scipy")
    for b in backends:
        route = f"{b} operator object reused with complex data after real data"
        try:
            oper = grid.make_operator(name, bc, backend=b, **kw)
            oper(np.array(d_real, copy=True))
            val = np.asarray(oper(np.array(d_cplx, copy=True)))
        except RuntimeError as err:
            if b == "scipy" and "not uniform" in str(err):
                continue
            fail("C03/route-raised", f"{name}{kw} bc={bc} on {gspec}: {route} raised {type(err).__name__}: {err}")
            return
        except Exception as err:  # noqa: BLE001
            fail("C03/route-raised", f"{name}{kw} bc={bc} on {gspec}: {route} raised {type(err).__name__}: {err}")
            return
        ok = val.shape == ref.shape and bool(np.allclose(val, ref, rtol=1e-10, atol=1e-10 * max(scale, 1e-30), equal_nan=True))
        stats["routes"]["reuse:" + b] = stats["routes"].get("reuse:" + b, 0) + 1
        log.add("reuse-route", b, ok)
        probe("operator_object_reused_with_other_dtype")
        if not ok:
            diff = float(np.nanmax(np.abs(val - ref))) if val.shape == ref.shape else float("nan")
            fail("C03/route-disagrees", f"{name}{kw} bc={bc} on {gspec}: {route} differs from make_operator_no_bc after set_ghost_cells "
                 f"by {diff:.3e} (scale {scale:.3e}; result dtype {val.dtype})", key=f"C03/route-disagrees/reused-object/{b}")
            return


def _linked_value_sequence(plan, grid, gspec, fcls, data, name, kw, rank_in, out_shape, backend, fail, probe, log, stats):
    """Route agreement over a short history: one set of boundary-condition / operator / setter objects whose boundary
    value is linked to an array that the user changes in place."""
    from pde.grids.boundaries.local import ConstBCBase

    bc = _bc(plan["bc"], gspec, bool(plan.get("antiperiodic")))
    try:
        bcs = grid.get_boundary_conditions(bc, rank=rank_in)
    except Exception:  # noqa: BLE001
        return
    target = None
    for ax in range(grid.num_axes):
        for side in (bcs[ax].low, bcs[ax].high):
            if isinstance(side, ConstBCBase) and not getattr(side, "value_is_linked", False) and type(side).__name__ in (
                    "DirichletBC", "NeumannBC", "MixedBC", "CurvatureBC") and target is None:
                target = side
    if target is None:
        return
    val = np.asarray(target.value, dtype=float)
    full_shape = tuple(target._shape_tensor) + tuple(target._shape_boundary)
    if val.shape != full_shape:
        if val.shape == tuple(target._shape_tensor):
            val = val.reshape(val.shape + (1,) * len(target._shape_boundary))
        try:
            val = np.broadcast_to(val, full_shape)
        except ValueError:
            return
    linked = np.array(val, dtype=float, order="C", copy=True)  # (ascontiguousarray would turn a 0-d value - 1-d grids - into a 1-d array)
    try:
        target.link_value(linked)
    except Exception as err:  # noqa: BLE001
        log.add("link-refused", type(err).__name__)
        return
    probe("linked_value_sequence")
    op_no_bc = backend.make_operator_no_bc(grid, name, **kw)
    try:
        oper = grid.make_operator(name, bcs, backend="numba", **kw)
        setter = backend.make_ghost_cell_setter(bcs)
    except Exception as err:  # noqa: BLE001
        fail("C03/route-raised", f"{name}{kw} with a linked boundary value on {gspec}: building the operator raised {type(err).__name__}: {err}")
        return
    for step, newval in enumerate([None, *plan["linked"]]):
        if newval is not None:
            linked[...] = newval  # the user updates the linked array in place
        # reference: fresh, unlinked conditions carrying the current value
        bcs_ref = grid.get_boundary_conditions(bc, rank=rank_in)
        for ax in range(grid.num_axes):
            for nm in ("low", "high"):
                side = getattr(bcs_ref[ax], nm)
                if getattr(bcs[ax], nm) is target:
                    side.value = np.array(linked, copy=True)
        fref = fcls(grid, np.array(data, copy=True))
        fref.set_ghost_cells(bcs_ref)
        ref = np.full(out_shape, np.nan, dtype=fref._data_full.dtype)
        op_no_bc(np.array(fref._data_full, copy=True), ref)
        inv_dx = np.concatenate([1 / np.asarray(grid.discretization, dtype=float), 1 / np.asarray(grid.discretization, dtype=float) ** 2])
        scale = max(float(np.nanmax(np.abs(ref))) if ref.size else 0.0,
                    float(np.nanmax(np.abs(fref._data_full))) * float(np.max(inv_dx)))

        def agree(route, value):
            value = np.asarray(value)
            ok = value.shape == ref.shape and bool(np.allclose(value, ref, rtol=1e-10, atol=1e-10 * max(scale, 1e-30), equal_nan=True))
            stats["routes"]["linked:" + route] = stats["routes"].get("linked:" + route, 0) + 1
            log.add("linked-route", step, route, ok)
            if not ok:
                fail("C03/route-disagrees", f"{name}{kw} bc={bc} on {gspec}: after the array linked to {type(target).__name__}(axis {target.axis}, "
                     f"{'upper' if target.upper else 'lower'}) was changed in place (update #{step}, value {newval!r}) route `{route}` does not follow "
                     f"the new value (differs from fresh conditions by {float(np.nanmax(np.abs(value - ref))) if value.shape == ref.shape else float('nan'):.3e})",
                     key=f"C03/route-disagrees/linked-value/{route}")

        try:
            agree("field.apply_operator(bcs object)", fcls(grid, np.array(data, copy=True)).apply_operator(name, bcs, **kw).data)
            agree("grid.make_operator(bcs object), made before the update", oper(np.array(data, copy=True)))
            f2 = fcls(grid, np.array(data, copy=True))
            f2.set_ghost_cells(bcs)
            o2 = np.full(out_shape, np.nan, dtype=f2._data_full.dtype)
            op_no_bc(np.array(f2._data_full, copy=True), o2)
            agree("set_ghost_cells(bcs object) + make_operator_no_bc", o2)
            full = np.array(fcls(grid, np.array(data, copy=True))._data_full, copy=True)
            setter(full)
            o3 = np.full(out_shape, np.nan, dtype=full.dtype)
            op_no_bc(full, o3)
            agree("compiled ghost-cell setter made before the update", o3)
            if name == "laplace" and not kw and plan["dtype"] == "float":
                import importlib

                modname = {"UnitGrid": "cartesian", "CartesianGrid": "cartesian", "PolarSymGrid": "polar_sym",
                           "SphericalSymGrid": "spherical_sym", "CylindricalSymGrid": "cylindrical_sym"}[gspec["cls"]]
                mod = importlib.import_module(f"pde.backends.scipy.operators.{modname}")
                common = importlib.import_module("pde.backends.scipy.operators.common")
                try:
                    mat, vec = mod._get_laplace_matrix(bcs)
                except (NotImplementedError, RuntimeError, TypeError, ValueError):
                    pass
                else:
                    agree("sparse Laplace matrix (bcs object)", common.make_laplace_from_matrix(mat, vec)(np.array(data, copy=True)))
        except Exception as err:  # noqa: BLE001
            fail("C03/route-raised", f"{name}{kw} bc={bc} on {gspec} with a linked value, update #{step}: a route raised {type(err).__name__}: {err}")
            return


def shrink_lists(plan):
    return []


def simplify(plan):
    def variant(fn):
        p = copy.deepcopy(plan)
        fn(p)
        return p

    g = plan["grid"]
    for i, n in enumerate(g["shape"]):
        if n > 2:
            yield variant(lambda p, i=i: p["grid"]["shape"].__setitem__(i, p["grid"]["shape"][i] - 1))
    if g["cls"] == "CartesianGrid":
        yield variant(lambda p: p.update(grid={"cls": "UnitGrid", "shape": p["grid"]["shape"], "periodic": p["grid"]["periodic"]}))
    if any(g.get("periodic") or []):
        yield variant(lambda p: p["grid"].update(periodic=[False] * len(p["grid"]["shape"])))
    if plan["dtype"] != "float":
        yield variant(lambda p: p.update(dtype="float"))
    if plan["kwargs"]:
        yield variant(lambda p: p.update(kwargs={}))
    if plan["bc"] != {"value": 0}:
        yield variant(lambda p: p.update(bc={"value": 0}))
    s = plan["sched"]
    if s["workers"] > 2:
        yield variant(lambda p: p["sched"].update(workers=p["sched"]["workers"] - 1))
    if s["partition"] != "static":
        yield variant(lambda p: p["sched"].update(partition="static"))
    if s["strategy"] != "random":
        yield variant(lambda p: p["sched"].update(strategy="random"))
    for seed in (0, 1, 2, 3):
        if s["seed"] != seed:
            yield variant(lambda p, seed=seed: p["sched"].update(seed=seed))
    if plan["threshold"] != 1:
        yield variant(lambda p: p.update(threshold=1))
    if plan.get("antiperiodic"):
        yield variant(lambda p: p.update(antiperiodic=False))
    if plan.get("sibling_first"):
        yield variant(lambda p: p.update(sibling_first=False))
    if plan.get("reuse_dtype"):
        yield variant(lambda p: p.update(reuse_dtype=False))
    if plan.get("linked"):
        yield variant(lambda p: p.update(linked=None))
        if plan["linked"] != [1.0, 2.0]:
            yield variant(lambda p: p.update(linked=[1.0, 2.0]))


def post_batch(tier, seed, agg):
    """Thorough tier only: JIT-mode confirmation with real, uncontrolled numba threads (labelled as
    observation, not simulation; see sim/jit_confirm.py)."""
    import json
    import os
    import subprocess
    import sys

    if tier != "thorough" and not os.environ.get("VERIF_JIT"):
        return None
    from sim.core import ROOT

    env = dict(os.environ)
    env.pop("NUMBA_DISABLE_JIT", None)
    env["NUMBA_NUM_THREADS"] = "16"
    env["OMP_NUM_THREADS"] = "16"
    env["VERIF_SEED"] = str(seed)
    p = subprocess.run([sys.executable, os.path.join(ROOT, "sim", "jit_confirm.py")], capture_output=True, env=env, cwd=ROOT, timeout=3000)
    results = None
    for line in p.stdout.decode(errors="replace").splitlines():
        if line.startswith("JITCONFIRM "):
            results = json.loads(line[11:])
    if results is None:
        return {"harness_errors": [{"run_index": -1, "error": "JIT confirmation produced no result: " + p.stderr.decode(errors="replace")[-1500:], "plan": None}]}
    viols = []
    for r in results:
        if not r["ok"]:
            viols.append({"run_index": -1, "plan": None, "no_minimise": True, "digest": None,
                          "violation": violation("C03/jit-parallel-differs-from-serial",
                                                 f"compiled parallel kernel {r['case']} differs from the compiled serial kernel by {r['maxdiff']:.3e} "
                                                 f"with real numba threads {r['threads']}", key="C03/jit/" + r["case"])})
    # the route oracle (not the thread simulation) once more on the first plans with real compilation: compiled ghost-cell
    # setters, overloads and numba's own parfor lowering, which python mode cannot reach
    from sim.core import jit_sample

    js = jit_sample(sys.modules[__name__], seed, runs=int(os.environ.get("VERIF_JIT_RUNS", "32")), budget_s=1200, timeout_s=1800)
    viols.extend(js.get("violations", []))
    return {"coverage": {**js.get("coverage", {}),
                         "jit_confirmation": {"note": "real compiled parallel=True kernels, numba threads 1/2/5/16, 3 repetitions each, "
                                              "vs compiled serial kernel at rtol 1e-12; schedule NOT controlled (observation, not simulation)",
                                              "kernels": len(results), "all_equal": all(r["ok"] for r in results),
                                              "max_difference": max(r["maxdiff"] for r in results),
                                              "cases": [r["case"] for r in results]}},
            "violations": viols, "harness_errors": js.get("harness_errors", [])}
