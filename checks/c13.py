"""C13 - stochastic steps add exactly the documented noise, reproducibly.
Engine: noise-sim (this file); DESIGN.md 4.6.

The simulator owns the source of randomness.  A recording `numpy.random.Generator`
subclass over a seeded PCG64 is handed to the equation through the `rng=` seam, every
`standard_normal` call is recorded (any other sampling method is recorded as an event of
its own), and the record is replayed into a small reference integrator that is written
from the property text and shares no code with py-pde's step functions.

One plan = (grid, state class, deterministic rate, variance spec, interpretation, solver,
backend, dt, n, t_start, generator seed, 0-3 extra read-only trackers).  Execution, in one
forked child:

  P   eq.solve(...) with a per-step probe tracker + the extra trackers   (recorded draws,
      state after every step)
  E   the same run with the extra trackers only (they cut the run into segments)
  0   the same run with tracker=None (one segment)
  [P2 a repetition of P for non-autonomous rates]
  zero-variance plans: Z (noise = 0, recording generator) against D (the same rate in a
      deterministic PDEBase subclass / the library class without noise argument)
  numba plans (python mode): P only, `numpy.random.randn` recorded instead of the generator
"""

from __future__ import annotations

import copy
import io
import math

import numpy as np

from sim import controller_sim as cs
from sim.core import EventLog, digest_of, fbits, violation

PROPERTY = "C13"
ISOLATE = True
TIERS = {
    "quick": {"runs": 8000, "budget_s": 70, "timeout_s": 40, "chunk": 32, "det_sample": 48, "det_runs": 300},
    "thorough": {"runs": 3000000, "budget_s": 570, "timeout_s": 120, "chunk": 32, "det_sample": 64, "det_runs": 1000},
}
RULE = ("seeded plans: (grid: polar / spherical with or without hole, cylindrical, anisotropic Cartesian, one cell, unit; "
        "state: scalar / vector / tensor / collection of mixed ranks; rate a*u [+ b*cos(w t)], DiffusionPDE or PDE({...}); "
        "variance: scalar / per component / per field / multiplicative s0+s1*c**2; interpretation; solver euler / milstein / "
        "implicit; backend numpy / numba in python mode; dt, n <= 50, t_start, generator seed; 0-3 extra read-only trackers "
        "with seeded interrupt schedules); a plan is non-trivial if its cell volumes are non-uniform or its noise is "
        "multiplicative or it has at least one extra tracker; distinct = distinct plan with the two seeds removed")
PROBES = ["faults/segments_cut_by_trackers", "probes/multiplicative_noise", "probes/milstein", "probes/implicit",
          "probes/collection_per_field_variance", "probes/nonuniform_volumes", "probes/zero_variance",
          "probes/numba_python_mode", "probes/noise_drift_term", "probes/per_component_variance",
          "probes/variance_zero_where_its_derivative_is_not",
          "probes/library_equation", "probes/one_cell_grid", "probes/nonautonomous_rate",
          "probes/collection_field_without_noise"]
COMPONENTS = {
    "real": ["PDEBase.solve -> Controller -> EulerSolver / MilsteinSolver / ImplicitSolver stochastic single steps",
             "SDEBase.make_noise_variance / is_sde / _noise_drift_factor", "PDE(..., noise=...) and DiffusionPDE(noise=...)",
             "NumpyBackend.make_gaussian_noise, make_pde_rhs", "NumbaBackend.make_gaussian_noise + fixed stepper "
             "(python mode: same source executed by CPython)", "grids' cell_volumes", "trackers and interrupt schedules"],
    "stub": ["bit generator: recording numpy Generator subclass over PCG64(seed) given through rng=",
             "numba path: numpy.random.randn wrapped by a recorder after numpy.random.seed(seed)",
             "LLVM code generation (NUMBA_DISABLE_JIT=1)"],
    "client_code": ["LinearSDE du = (a*u + b*cos(w t)) dt + noise (SDEBase subclass, additive variance from the base class)",
                    "MultSDE: the same with make_noise_variance returning s0 + s1*c**2 and 2*s1*c"],
}
ASSUMPTIONS = [
    "generated variances are exactly 0, >= 1e-7, or (4% of the plans: micrometre cells in SI units) of order 1e-17: the "
    "latter exercise defect D10 (is_sde dropped variances <= 1e-14; repaired, see known_findings.json), key "
    "C13/tiny-variance-treated-as-deterministic",
    "n <= 50 steps, <= 3 extra trackers, <= 40 cells; |a|*dt <= 0.3 (<= 0.1 for the implicit solver), noise amplitude per "
    "step <= 0.3 in the smallest cell, so that round-off stays far below rtol=1e-12 relative to the largest state value",
    "semi-implicit solver: only the documented statement is checked (noise increment added to the state the fixed-point "
    "iteration starts from, closed form for a linear rate, maxerror=1e-13, tolerance widened by the convergence bound "
    "n*q/(1-q)*maxerror*sqrt(size), q=|a|*dt); it is exercised with the Ito "
    "interpretation or additive noise only, because the solver has no drift term and the property does not say it should",
    "numba backend: python mode only; formula checked with the recorded numpy.random.randn draws when there is exactly one "
    "call of the state's shape per step, otherwise skipped (the property claims no draw discipline for numba)",
    "bit-identity between runs with different tracker sets is required for autonomous rates; with b*cos(w t) the time of a "
    "step depends on the segmentation by round-off and a tolerance derived from it is used",
    "the reference takes cell volumes from grid.cell_volumes and, for DiffusionPDE / PDE, the deterministic rate from a "
    "second noise-free instance's evolution_rate",
]

EPS = float(np.finfo(float).eps)
# alpha of the interpretation, restated from the property / documentation (not read from py-pde)
ALPHA = {"ito": 0.0, "itô": 0.0, "stratonovich": 0.5, "anti-ito": 1.0, "anti-itô": 1.0,
         "hänggi-klimontovich": 1.0, "hanggi-klimontovich": 1.0}
IMPLICIT_MAXERROR = 1e-13
# SDEBase.is_sde treats every variance <= 1e-14 as "no noise" whatever the cell volume is, so that e.g. variance 1e-15 on
# cells of volume 1e-15 (noise amplitude sqrt(dt) per step) is silently simulated without noise.  The engine detects this
# (class C13/draw-count, key C13/tiny-variance-treated-as-deterministic); the defect was repaired in /repo, the plans
# stay in the mix so that it is reported again if it ever returns.
TINY_VARIANCE_RATE = 0.04
EXTRA_KINDS = ("rec", "rec", "data", "storage", "print", "steady")


def prepare():
    from sim.prewarm import prewarm_pde

    prewarm_pde()


# ======================================================================================
# the recording generator (the stub of this engine)
# ======================================================================================


def _short(x):
    if isinstance(x, np.ndarray):
        return f"ndarray{x.shape}"
    if isinstance(x, (tuple, list)):
        return [_short(v) for v in x]
    if isinstance(x, dict):
        return {str(k): _short(v) for k, v in sorted(x.items(), key=lambda kv: str(kv[0]))}
    if isinstance(x, (int, float, str, bool, type(None))):
        return x
    if isinstance(x, (np.integer,)):
        return int(x)
    if isinstance(x, (np.floating,)):
        return float(x)
    return type(x).__name__


class RecGen(np.random.Generator):
    """numpy Generator over PCG64(seed) that records how it is used."""

    def __init__(self, seed: int):
        super().__init__(np.random.PCG64(int(seed)))
        self.normals = []  # (args, kwargs, values)
        self.others = []  # (method name, args, kwargs)

    def standard_normal(self, *args, **kwargs):
        values = np.random.Generator.standard_normal(self, *args, **kwargs)
        self.normals.append((args, dict(kwargs), np.array(values, copy=True)))
        return values


def _make_other(name):
    def method(self, *args, **kwargs):
        self.others.append((name, _short(args), _short(kwargs)))
        return getattr(np.random.Generator, name)(self, *args, **kwargs)

    method.__name__ = name
    return method


for _name in dir(np.random.Generator):
    if not _name.startswith("_") and _name not in ("standard_normal", "bit_generator") \
            and callable(getattr(np.random.Generator, _name)):
        setattr(RecGen, _name, _make_other(_name))


# ======================================================================================
# plan generation (pure function of the PRNG, pure python)
# ======================================================================================


def _pick(rng, seq):
    return seq[rng.randrange(len(seq))]


def _grid_measures(g):
    """(smallest cell volume, smallest cell extent) of a grid spec, computed analytically."""
    k = g["kind"]
    if k in ("polar", "spherical"):
        r0, r1 = g["r"]
        dr = (r1 - r0) / g["n"]
        if k == "polar":
            return math.pi * ((r0 + dr) ** 2 - r0 ** 2), dr
        return 4.0 / 3.0 * math.pi * ((r0 + dr) ** 3 - r0 ** 3), dr
    if k == "cyl":
        r0, r1 = g["r"]
        dr = (r1 - r0) / g["shape"][0]
        dz = (g["z"][1] - g["z"][0]) / g["shape"][1]
        return math.pi * ((r0 + dr) ** 2 - r0 ** 2) * dz, min(dr, dz)
    if k == "cart":
        hs = [(b[1] - b[0]) / n for b, n in zip(g["bounds"], g["shape"])]
        return math.prod(hs), min(hs)
    return 1.0, 1.0


def _gen_grid(rng):
    k = _pick(rng, ("polar", "polar_hole", "spherical", "spherical_hole", "cyl", "cyl", "cart", "cart", "one_cell", "unit"))
    if k in ("polar", "polar_hole", "spherical", "spherical_hole"):
        r0 = round(rng.uniform(0.3, 2.0), 3) if k.endswith("_hole") else 0.0
        return {"kind": k.split("_")[0], "r": [r0, r0 + round(rng.uniform(0.5, 3.0), 3)], "n": rng.randint(2, 7)}
    if k == "cyl":
        r0 = round(rng.uniform(0.3, 1.5), 3) if rng.random() < 0.3 else 0.0
        z0 = _pick(rng, (0.0, 0.0, -1.0, 0.5))
        return {"kind": "cyl", "r": [r0, r0 + round(rng.uniform(0.5, 3.0), 3)], "z": [z0, z0 + round(rng.uniform(0.4, 3.0), 3)],
                "shape": [rng.randint(2, 4), rng.randint(1, 3)], "periodic_z": rng.random() < 0.3}
    if k == "cart":
        dim = _pick(rng, (1, 2, 2, 3))
        shape = [rng.randint(1, {1: 8, 2: 4, 3: 2}[dim]) for _ in range(dim)]
        bounds = []
        for _ in range(dim):
            lo = _pick(rng, (0.0, 0.0, -1.0, 2.5))
            bounds.append([lo, lo + round(rng.uniform(0.2, 4.0), 3)])
        return {"kind": "cart", "bounds": bounds, "shape": shape, "periodic": [rng.random() < 0.3 for _ in range(dim)]}
    if k == "one_cell":
        q = rng.randrange(3)
        if q == 0:
            return {"kind": "cart", "bounds": [[0.0, round(rng.uniform(0.1, 5.0), 3)]], "shape": [1], "periodic": [False]}
        r0 = _pick(rng, (0.0, 0.7))
        return {"kind": "polar" if q == 1 else "spherical", "r": [r0, r0 + round(rng.uniform(0.5, 2.0), 3)], "n": 1}
    return {"kind": "unit", "shape": _pick(rng, ([1], [2], [3], [5], [2, 2], [3, 2])), "periodic": rng.random() < 0.3}


def _gen_sig(rng):
    return round(_pick(rng, (0.02, 0.05, 0.1, 0.2, 0.3, rng.uniform(0.02, 0.3))), 4)


def gen_plan(rng, tier, idx):
    grid = _gen_grid(rng)
    if rng.random() < TINY_VARIANCE_RATE:
        # micrometre cells in SI units: ordinary noise amplitudes then mean variances below 1e-14 (see TINY_VARIANCE_RATE)
        grid = {"kind": "cart", "bounds": [[0.0, 2e-5], [0.0, 1e-5], [0.0, 1e-5]], "shape": [2, 1, 1], "periodic": [False] * 3}
    vol_min, h_min = _grid_measures(grid)
    # -- time axis
    dt_mode = rng.randrange(4)
    if dt_mode == 0:
        dt = _pick(rng, (0.1, 0.01, 0.001, 0.2, 0.05, 0.3))
    elif dt_mode == 1:
        dt = _pick(rng, (1.0, 0.5, 0.25, 2.0))
    elif dt_mode == 2:
        dt = 10 ** rng.uniform(-3, 0.3)
    else:
        dt = _pick(rng, (1 / 3, 1 / 7, math.pi / 10, 0.1 + 1e-17))
    n = rng.randint(1, 2) if rng.random() < 0.08 else rng.randint(1, 50)
    ts_mode = rng.randrange(5)
    if ts_mode <= 2:
        t_start = 0.0
    elif ts_mode == 3:
        t_start = _pick(rng, (1.0, 0.1, 10.0, -1.0, 0.3))
    else:
        t_start = rng.uniform(-5, 50)
    t_end = t_start + n * dt
    # -- what is simulated
    mode = "zero" if rng.random() < 0.08 else "sde"
    backend = "numba" if rng.random() < 0.15 else "numpy"
    solver = _pick(rng, ("euler", "euler", "euler", "euler", "milstein", "milstein", "milstein", "implicit", "implicit"))
    ek = rng.random()
    eq_kind = "linear" if ek < 0.87 or solver == "implicit" else ("diffusion" if ek < 0.985 else "pde")
    sk = rng.random()
    if eq_kind == "diffusion":
        state = {"kind": "scalar"}
    elif eq_kind == "pde":
        state = {"kind": "collection", "ranks": [0, 0]} if rng.random() < 0.8 else {"kind": "scalar"}
    elif sk < 0.36:
        state = {"kind": "scalar"}
    elif sk < 0.56:
        state = {"kind": "vector"}
    elif sk < 0.68:
        state = {"kind": "tensor"}
    else:
        state = {"kind": "collection", "ranks": list(_pick(rng, ([0, 1], [0, 0], [1, 0], [0, 2], [0, 1, 2], [1, 1], [2, 0, 1],
                                                                 [0, 0, 0], [1, 2])))}
    state["u0_seed"] = rng.randrange(1 << 30)
    state["u0_signed"] = rng.random() < 0.4
    if eq_kind == "linear":
        mag = rng.uniform(0.01, 0.1 if solver == "implicit" else 0.3) / dt
        a = -mag if rng.random() < 0.7 else min(mag, 3.0 / (n * dt))
        nonaut = rng.random() < 0.25
        eq = {"kind": "linear", "a": a, "a_spread": _pick(rng, (0.0, 0.3)) if solver != "implicit" else _pick(rng, (0.0, 0.2)),
              "b": rng.uniform(-1, 1) if nonaut else 0.0, "w": rng.uniform(0.1, 3) / dt if nonaut else 0.0}
    elif eq_kind == "diffusion":
        eq = {"kind": "diffusion", "D": rng.uniform(0.02, 0.15) * h_min ** 2 / dt}
    else:
        k1, k2 = rng.uniform(0.01, 0.2) / dt, rng.uniform(0.01, 0.2) / dt
        eq = {"kind": "pde", "k": k1, "c": k2, "D": rng.uniform(0.0, 0.1) * h_min ** 2 / dt if rng.random() < 0.5 else 0.0}
    # -- noise: amplitude per unit normal number in the smallest cell is sig, i.e. var = sig**2 * vol_min / dt
    unit = vol_min / dt
    interp = _pick(rng, ("ito", "ito", "ito", "stratonovich", "stratonovich", "stratonovich", "anti-ito", "anti-ito",
                         "itô", "anti-itô", "hänggi-klimontovich", "hanggi-klimontovich"))
    nk = rng.random()
    if eq_kind == "diffusion":
        noise = {"kind": "scalar", "vars": [_gen_sig(rng) ** 2 * unit]}
        interp = "ito"  # DiffusionPDE has no interpretation argument
    elif eq_kind == "pde":
        noise = {"kind": "per_field", "vars": [_gen_sig(rng) ** 2 * unit, 0.0 if rng.random() < 0.3 else _gen_sig(rng) ** 2 * unit],
                 "form": _pick(rng, ("list", "dict", "array"))}
        if state["kind"] == "scalar":
            noise = {"kind": "scalar", "vars": [noise["vars"][0]]}
    elif nk < 0.34:
        top = 0.15 if solver != "implicit" else 0.1
        noise = {"kind": "mult", "s0": 0.0 if rng.random() < 0.25 else _gen_sig(rng) ** 2 * unit,
                 "s1": rng.uniform(0.03, top) ** 2 * unit, "spread": _pick(rng, (0.0, 0.5))}
        if rng.random() < 0.3:
            # demographic-type noise: variance s1*max(c, 0) with some cells exactly at zero - the variance vanishes there
            # while its derivative does not (drift and Milstein correction stay finite and non-zero)
            noise.update(form="ramp", zero_cells=rng.randint(1, 3), s1=noise["s1"] * 4)
    elif state["kind"] == "collection" and nk < 0.8:
        vs = [_gen_sig(rng) ** 2 * unit for _ in state["ranks"]]
        if rng.random() < 0.3:
            vs[rng.randrange(len(vs))] = 0.0
        noise = {"kind": "per_field", "vars": vs, "form": _pick(rng, ("list", "array"))}
    elif state["kind"] in ("vector", "tensor") and nk < 0.75:
        noise = {"kind": "per_component", "vars": [_gen_sig(rng) ** 2 * unit for _ in range(9)]}
    else:
        noise = {"kind": "scalar", "vars": [_gen_sig(rng) ** 2 * unit]}
    if solver == "implicit" and noise["kind"] == "mult":
        interp = _pick(rng, ("ito", "itô"))
    if mode == "zero":
        if noise["kind"] == "mult":
            noise = {"kind": "scalar", "vars": [0.0]}
        noise["zero_form"] = _pick(rng, ("int", "float", "array"))
    # -- the schedule dimension: extra read-only trackers
    trackers = []
    others_times = []
    for _ in range(_pick(rng, (0, 1, 1, 2, 2, 3))):
        itr = None
        for _try in range(20):
            itr = cs._gen_interrupt(rng, dt, t_start, t_end, False, others_times)
            if itr["type"] != "realtime":  # no wall clock in this engine
                break
        else:
            itr = {"type": "const", "dt": 2 * dt}
        if itr["type"] == "fixed":
            others_times.extend(itr["times"])
        trackers.append({"kind": _pick(rng, EXTRA_KINDS), "interrupt": itr})
    plan = {"engine": "noise-sim", "prop": PROPERTY, "mode": mode, "backend": backend, "solver": solver, "grid": grid,
            "state": state, "eq": eq, "noise": noise, "interp": interp, "interp_via": "attr" if rng.random() < 0.35 else "ctor",
            "dt": dt, "n": n, "t_start": t_start,
            "seed": rng.randrange(1 << 30), "trackers": trackers}
    # an earlier use of the same equation object (and generator): a short run with another step; afterwards the
    # generator is put back to its initial state, so that the planned run is judged exactly as without it (drawn last)
    if rng.random() < 0.25:
        plan["prior"] = {"n": rng.randint(1, 3), "dt_factor": _pick(rng, (0.5, 0.25, 1.0, 0.37))}
    return plan


# ======================================================================================
# building the system under simulation from a plan
# ======================================================================================


def _make_grid(g):
    import pde

    k = g["kind"]
    if k in ("polar", "spherical"):
        cls = pde.PolarSymGrid if k == "polar" else pde.SphericalSymGrid
        r0, r1 = g["r"]
        return cls((r0, r1) if r0 > 0 else r1, int(g["n"]))
    if k == "cyl":
        r0, r1 = g["r"]
        return pde.CylindricalSymGrid((r0, r1) if r0 > 0 else r1, (g["z"][0], g["z"][1]), [int(v) for v in g["shape"]],
                                      periodic_z=bool(g.get("periodic_z", False)))
    if k == "cart":
        per = list(g.get("periodic") or [False] * len(g["shape"]))
        return pde.CartesianGrid([tuple(b) for b in g["bounds"]], [int(v) for v in g["shape"]], periodic=per)
    if k == "unit":
        return pde.UnitGrid([int(v) for v in g["shape"]], periodic=bool(g.get("periodic", False)))
    raise ValueError(k)


class _Built:
    """Everything derived from a plan that the runs and the reference share (no py-pde step code)."""

    def __init__(self, plan):
        import pde

        self.plan = plan
        self.grid = grid = _make_grid(plan["grid"])
        st = plan["state"]
        kind = st["kind"]
        if plan["eq"]["kind"] == "diffusion":
            kind = "scalar"
        self.ranks = {"scalar": [0], "vector": [1], "tensor": [2]}.get(kind) or [int(r) for r in st.get("ranks") or [0, 0]]
        if plan["eq"]["kind"] == "pde":
            self.ranks = [0, 0] if kind == "collection" else [0]
            kind = "collection" if len(self.ranks) == 2 else "scalar"
        self.kind = kind
        self.is_collection = kind == "collection"
        self.num_axes = grid.num_axes
        self.comps_per_field = [grid.dim ** r for r in self.ranks]
        proto = self.make_state(np.float64(0.0))
        self.shape = tuple(proto.data.shape)
        self.comp_shape = self.shape[:len(self.shape) - self.num_axes]
        self.K = int(np.prod(self.comp_shape)) if self.comp_shape else 1
        if self.K != sum(self.comps_per_field):
            raise AssertionError(f"component count {self.K} of {self.shape} vs ranks {self.ranks} in dim {grid.dim}")
        lo = -1.5 if st.get("u0_signed") else 0.5
        self.u0 = np.random.default_rng(int(st.get("u0_seed", 0))).uniform(lo, 1.5, size=self.shape)
        self.vol = np.broadcast_to(np.asarray(grid.cell_volumes, dtype=float), tuple(grid.shape))
        self.nonuniform = bool(self.vol.size > 1 and np.ptp(self.vol) > 1e-12 * float(np.max(self.vol)))
        self.vol_not_one = bool(np.any(np.abs(self.vol - 1.0) > 1e-12))
        # deterministic rate a*u + b*cos(w t) of the harness-defined equations
        eq = plan["eq"]
        if eq["kind"] == "linear":
            self.a_arr = self.per_comp([eq["a"] * (1 + eq.get("a_spread", 0.0) * (i % 4) / 4) for i in range(self.K)])
            self.b, self.w = float(eq.get("b", 0.0)), float(eq.get("w", 0.0))
        else:
            self.a_arr, self.b, self.w = None, 0.0, 0.0
        self.autonomous = self.b == 0.0
        self._noise_setup()

    # -- helpers
    def per_comp(self, values):
        arr = np.array([values[i % len(values)] for i in range(self.K)], dtype=float)
        return arr.reshape(self.comp_shape + (1,) * self.num_axes)

    def make_state(self, data=None):
        import pde

        classes = (pde.ScalarField, pde.VectorField, pde.Tensor2Field)
        fields = [classes[r](self.grid, 0.0) for r in self.ranks]
        state = pde.FieldCollection(fields) if self.is_collection else fields[0]
        if data is None:
            data = self.u0
        state.data[...] = data
        return state

    def _noise_setup(self):
        """Variance as the reference sees it (arrays broadcastable to the data) and as the
        constructor argument of the equation."""
        nz = self.plan["noise"]
        zero = self.plan["mode"] == "zero"
        kind = nz["kind"]
        vals = [0.0 if zero else float(v) for v in nz.get("vars", [0.0])] or [0.0]
        if zero and kind == "mult":  # is_sde of the harness-defined multiplicative class is not py-pde's decision
            kind, vals = "scalar", [0.0]
        if kind == "per_component" and self.is_collection:
            kind = "per_field"
        if kind == "per_field" and not self.is_collection:
            kind = "scalar"
        if kind == "per_component" and self.K == 1:
            kind = "scalar"
        self.noise_kind = kind
        self.s0_arr = self.s1_arr = None
        if kind == "mult":
            sp = float(nz.get("spread", 0.0))
            self.s0_arr = self.per_comp([float(nz["s0"]) * (1 + sp * (i % 3) / 3) for i in range(self.K)])
            self.s1_arr = self.per_comp([float(nz["s1"]) * (1 + sp * ((i + 1) % 3) / 3) for i in range(self.K)])
            self.var_arr = None
            self.noise_arg = 0
            self.ramp = nz.get("form") == "ramp"
            if self.ramp:
                self.u0 = np.abs(self.u0)
                pos = np.random.default_rng(int(self.plan["state"].get("u0_seed", 0)) + 17).permutation(self.u0.size)
                self.u0.flat[pos[:min(int(nz.get("zero_cells", 1)), self.u0.size - 1)]] = 0.0  # at least one entry stays non-zero
        elif kind == "scalar":
            self.var_arr = np.float64(vals[0])
            self.noise_arg = vals[0]
        elif kind == "per_component":
            self.var_arr = self.per_comp(vals)
            self.noise_arg = np.array([vals[i % len(vals)] for i in range(self.K)], dtype=float).reshape(self.comp_shape)
        else:  # per_field: every component of field i has variance v_i
            nf = len(self.ranks)
            per_field = [vals[i % len(vals)] for i in range(nf)]
            expanded = []
            for v, c in zip(per_field, self.comps_per_field):
                expanded.extend([v] * c)
            self.var_arr = self.per_comp(expanded)
            self.per_field_vars = per_field
            form = nz.get("form", "list")
            self.noise_arg = np.array(per_field, dtype=float) if form == "array" else list(per_field)
            if form == "dict":
                self.noise_arg = {name: v for name, v in zip(("u", "c"), per_field)}
        if zero:
            zf = nz.get("zero_form", "int")
            if zf == "int":
                self.noise_arg = 0
            elif zf == "float":
                self.noise_arg = 0.0
            # "array": keep the array / list / dict of zeros built above (a scalar stays 0.0)
        self.has_noise = kind == "mult" or bool(np.any(np.asarray(self.var_arr) != 0.0))

    def variance(self, u):
        """(variance, d variance / d field) at the state u, restated from the plan."""
        if self.noise_kind == "mult" and getattr(self, "ramp", False):
            return self.s1_arr * np.maximum(u, 0.0), self.s1_arr * (u >= 0.0)
        if self.noise_kind == "mult":
            return self.s0_arr + self.s1_arr * u ** 2, 2 * self.s1_arr * u
        return np.broadcast_to(self.var_arr, self.shape), np.zeros(self.shape)


def _make_equation(B: _Built, rng, deterministic: bool = False):
    """The equation object given to solve().  deterministic=True: the same rate without any
    noise machinery (PDEBase subclass / library class without noise argument)."""
    import pde
    from pde.pdes.base import PDEBase, SDEBase

    plan = B.plan
    eq = plan["eq"]
    if eq["kind"] == "diffusion":
        if deterministic:
            return pde.DiffusionPDE(diffusivity=eq["D"], bc="auto_periodic_neumann")
        return pde.DiffusionPDE(diffusivity=eq["D"], bc="auto_periodic_neumann", noise=B.noise_arg, rng=rng)
    if eq["kind"] == "pde":
        lap = f" + {eq['D']!r} * laplace(u)" if eq.get("D") else ""
        if len(B.ranks) == 2:
            # (field names deliberately NOT in alphabetical order: variances given by name must follow the order of the rhs)
            rhs = {"u": f"-{eq['k']!r} * u + {eq['c']!r} * c{lap}", "c": f"-{eq['k']!r} * c - {eq['c']!r} * u"}
        else:
            rhs = {"u": f"-{eq['k']!r} * u{lap}"}
        if deterministic:
            return pde.PDE(rhs, bc="auto_periodic_neumann")
        return _with_interp(plan, lambda **kw: pde.PDE(rhs, bc="auto_periodic_neumann", noise=B.noise_arg, rng=rng, **kw))

    a_arr, b, w = B.a_arr, B.b, B.w

    def rate(data, t):
        return a_arr * data + b * np.cos(w * t)

    if deterministic:
        class LinearODE(PDEBase):
            """du/dt = a*u + b*cos(w t), no noise machinery at all."""

            def evolution_rate(self, state, t=0):
                res = state.copy()
                res.data = rate(state.data, t)
                return res

            def make_evolution_rate(self, state, backend):
                return rate

        return LinearODE()

    class LinearSDE(SDEBase):
        """du = (a*u + b*cos(w t)) dt + noise; additive variance handled by the base class."""

        def evolution_rate(self, state, t=0):
            res = state.copy()
            res.data = rate(state.data, t)
            return res

        def make_evolution_rate(self, state, backend):
            return rate

    if B.noise_kind != "mult":
        return _with_interp(plan, lambda **kw: LinearSDE(noise=B.noise_arg, rng=rng, **kw))

    s0, s1 = B.s0_arr, B.s1_arr

    if getattr(B, "ramp", False):

        class RampSDE(LinearSDE):
            """Demographic-type noise: variance s1*max(c, 0) with (right) derivative s1*(c >= 0) (client code)."""

            @property
            def is_sde(self):
                return True

            def make_noise_variance(self, state, *, backend, ret_diff=False):
                def noise_variance(state_data, t):
                    return s1 * np.maximum(state_data, 0.0)

                def noise_variance_diff(state_data, t):
                    return s1 * np.maximum(state_data, 0.0), s1 * (state_data >= 0.0)

                return noise_variance_diff if ret_diff else noise_variance

        return _with_interp(plan, lambda **kw: RampSDE(rng=rng, **kw))

    class MultSDE(LinearSDE):
        """Multiplicative noise: variance s0 + s1*c**2 with derivative 2*s1*c (client code)."""

        @property
        def is_sde(self):
            return True

        def make_noise_variance(self, state, *, backend, ret_diff=False):
            def noise_variance(state_data, t):
                return s0 + s1 * state_data ** 2

            def noise_variance_diff(state_data, t):
                return s0 + s1 * state_data ** 2, 2 * s1 * state_data

            return noise_variance_diff if ret_diff else noise_variance

    return _with_interp(plan, lambda **kw: MultSDE(rng=rng, **kw))


def _with_interp(plan, make):
    """The interpretation is a public attribute of the equation: it is either given to the constructor or assigned
    afterwards (for classes like DiffusionPDE assignment is the only way)."""
    if plan.get("interp_via") == "attr":
        eq = make()
        eq.noise_interpretation = plan["interp"]
        return eq
    return make(noise_interpretation=plan["interp"])


def _build_extras(plan, B, cut_times):
    """The extra read-only trackers of the plan; every handled time is appended to cut_times."""
    import pde

    objs = []
    for tr in plan["trackers"]:
        kind = tr["kind"]
        itr = cs._make_interrupt(tr["interrupt"])
        kw = {"interrupts": itr if itr is not None else 1}
        if kind == "data":
            obj = pde.DataTracker(lambda state, t: float(np.sum(state.data)), **kw)
        elif kind == "storage":
            obj = pde.MemoryStorage().tracker(**kw)
        elif kind == "print":
            obj = pde.PrintTracker(stream=io.StringIO(), **kw)
        elif kind == "steady":
            obj = pde.SteadyStateTracker(atol=-math.inf, rtol=0.0, **kw)
        else:
            obj = pde.CallbackTracker(lambda state, t: None, **kw)
        o_handle = obj.handle

        def handle(field, t, _h=o_handle):
            cut_times.append(float(t))
            return _h(field, t)

        obj.handle = handle
        objs.append(obj)
    return objs


def _run(plan, B: _Built, *, probe: bool, extras: bool, deterministic: bool = False, solver: str | None = None):
    """One real eq.solve(...) run under the recording generator."""
    import importlib

    import pde

    gen = RecGen(plan["seed"])
    eq = _make_equation(B, gen, deterministic=deterministic)
    state0 = B.make_state()
    dt, t0 = plan["dt"], plan["t_start"]
    t_end = t0 + plan["n"] * dt
    out = {"gen": gen, "probe": [], "cuts": [], "exception": None, "randn": []}
    trackers = []
    if probe:
        I = importlib.import_module("pde.trackers.interrupts")

        def cb(state, t):
            out["probe"].append((float(t), np.array(state.data, copy=True)))

        trackers.append(pde.CallbackTracker(cb, interrupts=I.ConstantInterrupts(dt)))
    if extras:
        trackers.extend(_build_extras(plan, B, out["cuts"]))
    solver = solver or plan["solver"]
    kw = {}
    if solver == "euler":
        kw["adaptive"] = False
    if solver == "implicit":
        kw["maxerror"] = IMPLICIT_MAXERROR
        kw["maxiter"] = 1000
    numba_mode = plan["backend"] == "numba"
    real_randn = np.random.randn
    if numba_mode:
        np.random.seed(int(plan["seed"]) % (1 << 32))

        def randn(*shape):
            values = real_randn(*shape)
            out["randn"].append((tuple(shape), np.array(values, copy=True)))
            return values

        np.random.randn = randn
    try:
        if plan.get("prior"):
            dt_p = dt * plan["prior"]["dt_factor"]
            eq.solve(B.make_state(), t_range=(t0, t0 + plan["prior"]["n"] * dt_p), dt=dt_p, solver=solver, backend=plan["backend"],
                     tracker=None, **kw)
            # back to the start: the planned run sees the generator as if the equation had never been used
            gen.bit_generator.state = np.random.PCG64(int(plan["seed"])).state
            gen.normals.clear()
            gen.others.clear()
            out["randn"].clear()
            if numba_mode:
                np.random.seed(int(plan["seed"]) % (1 << 32))
        res, info = eq.solve(state0, t_range=(t0, t_end), dt=dt, solver=solver, backend=plan["backend"],
                             tracker=trackers or None, ret_info=True, **kw)
        out["final"] = np.array(res.data, copy=True)
        out["steps"] = int(info["solver"]["steps"])
        out["stochastic_flag"] = info["solver"].get("stochastic")
    except Exception as err:  # noqa: BLE001 - the run must succeed
        out["exception"] = f"{type(err).__name__}: {err}"
    finally:
        np.random.randn = real_randn
    out["rng_is_gen"] = getattr(eq, "rng", None) is gen
    return out


# ======================================================================================
# the reference integrator (independent of py-pde's step functions)
# ======================================================================================


def _reference(plan, B: _Built, draws, n_steps, lib_rate=None, anchors=None):
    """States after 0..n_steps steps of the documented update, fed with the recorded draws.

    anchors: {k: state observed after k steps} - where given, step k+1 starts from the observed state instead of the
    reference's own (needed when the noise amplitude is not Lipschitz: sqrt(s1*max(c, 0)) turns a difference of 1e-20
    in a cell that crosses zero into 1e-10)."""
    dt = plan["dt"]
    alpha = ALPHA[plan["interp"]]
    solver = plan["solver"]
    vol = B.vol
    u = B.u0.copy()
    t = plan["t_start"]
    traj = [u]
    for k in range(n_steps):
        xi = draws[k]
        if anchors is not None and k in anchors:
            u = anchors[k]
        var, dvar = B.variance(u)
        noise = np.sqrt(var * dt / vol) * xi
        if solver == "implicit":
            # noise is added to the state the iteration starts from; converged backward Euler step
            # u' = (u + noise) + dt*(a*u' + b*cos(w*(t+dt))) solved for u'
            u = (u + noise + dt * B.b * np.cos(B.w * (t + dt))) / (1.0 - B.a_arr * dt)
        else:
            f = lib_rate(u, t) if lib_rate is not None else B.a_arr * u + B.b * np.cos(B.w * t)
            du = dt * f + noise
            if alpha != 0.0:
                du = du + 0.5 * alpha * dt * dvar / vol
            if solver == "milstein":
                dW = math.sqrt(dt) * xi
                du = du + 0.25 * dvar / vol * (dW ** 2 - dt)
            u = u + du
        t = t + dt
        traj.append(u)
    return traj


def _library_rate(B: _Built):
    """Deterministic rate of DiffusionPDE / PDE from a second, noise-free instance."""
    eq = _make_equation(B, None, deterministic=True)
    field = B.make_state()

    def rate(u, t):
        field.data[...] = u
        return np.array(eq.evolution_rate(field, t).data, copy=True)

    return rate


# ======================================================================================
# execution + oracles
# ======================================================================================


def _time_bound(plan, n):
    t0 = plan["t_start"]
    return 8 * (n + 1) * EPS * max(abs(t0), abs(t0 + plan["n"] * plan["dt"]), plan["dt"])


def _nonautonomous_atol(plan, B: _Built) -> float:
    """b*cos(w t) is evaluated at times that depend on the segmentation by round-off d; this
    changes a step by at most dt*|b|*|w|*d."""
    if B.autonomous:
        return 0.0
    n = plan["n"] + 2
    T = n * plan["dt"]
    growth = math.exp(max(0.0, float(np.max(B.a_arr))) * T)
    return 50 * T * abs(B.b) * abs(B.w) * _time_bound(plan, n) * growth


def _describe_mismatch(got, ref, B: _Built):
    if got.shape != ref.shape:
        return f"shape {got.shape} instead of {ref.shape}"
    diff = np.abs(got - ref)
    idx = np.unravel_index(int(np.nanargmax(diff)) if not np.all(np.isnan(diff)) else 0, diff.shape)
    return (f"largest deviation at index {tuple(int(i) for i in idx)}: got {float(got[idx])!r}, expected {float(ref[idx])!r} "
            f"(difference {float(got[idx] - ref[idx]):.3e}); cell volume there {float(B.vol[idx[len(B.comp_shape):]])!r}")


def execute(plan: dict) -> dict:
    import pde  # noqa: F401

    log = EventLog()
    stats: dict = {"faults": {}, "probes": {}}
    log.add("plan", digest_of(plan))
    state = {"viol": None, "steps": 0, "worst": 0.0}

    def probe(name, n=1):
        stats["probes"][name] = stats["probes"].get(name, 0) + n

    def fail(klass, detail, key=None):
        if state["viol"] is None:
            state["viol"] = violation(klass, detail, key)

    B = _Built(plan)
    dt, n, solver = plan["dt"], plan["n"], plan["solver"]
    # a plan whose variances all vanish is a zero-variance plan whatever its mode says (minimisation may produce one)
    zero = plan["mode"] == "zero" or not B.has_noise
    numba_mode = plan["backend"] == "numba"
    rtol = 1e-12
    na_atol = _nonautonomous_atol(plan, B)
    if solver == "implicit" and B.a_arr is not None:
        # The fixed-point iteration stops when the rms change of an iteration is below maxerror; with the contraction
        # factor q = |a|*dt <= 0.13 the distance to the fixed point is then at most q/(1-q)*maxerror*sqrt(size) per step.
        q = float(np.max(np.abs(B.a_arr))) * dt
        growth = math.exp(max(0.0, float(np.max(B.a_arr))) * (n + 2) * dt)
        na_atol += (n + 2) * growth * q / (1 - q) * IMPLICIT_MAXERROR * math.sqrt(B.u0.size)
    lib_rate = _library_rate(B) if plan["eq"]["kind"] != "linear" else None
    if solver == "implicit" and plan["eq"]["kind"] != "linear":
        raise ValueError("plan: the implicit solver is only simulated with the linear rate (closed-form fixed point)")
    where = (f"solver={solver}, backend={plan['backend']}, interpretation={plan['interp']!r}, noise={B.noise_kind}, "
             f"grid={plan['grid']['kind']}{list(B.grid.shape)}, state={B.kind}{list(B.shape)}, dt={dt!r}")

    def close(got, ref, scale):
        if got.shape != ref.shape:
            return False
        ratio = float(np.max(np.abs(got - ref) / (rtol * np.abs(ref) + rtol * scale + na_atol + 1e-300)))
        state["worst"] = max(state["worst"], ratio) if ratio == ratio else math.inf
        return ratio <= 1.0

    def finish():
        v = state["viol"]
        log.add("verdict", v["class"] if v else None)
        p = copy.deepcopy(plan)
        p.pop("seed", None)
        p["state"].pop("u0_seed", None)
        nontrivial = B.nonuniform or B.noise_kind == "mult" or bool(plan["trackers"])
        if v is None and state["worst"] > 0.1:
            probe("deviation_above_tenth_of_tolerance")  # how much of the tolerance correct code uses up
        return {"violation": v, "digest": log.digest(), "stats": stats, "nontrivial": bool(nontrivial),
                "sig": digest_of(p), "sim_time": float(n * dt), "sched_steps": int(state["steps"]),
                "worst_tolerance_ratio": state["worst"],
                "events_head": log.head[:60]}

    def check_run_ok(tag, run):
        if run["exception"]:
            fail("C13/run-raised", f"{tag} raised {run['exception']} ({where})")
            return False
        state["steps"] += run["steps"]
        log.add("run", tag, run["steps"], fbits(run["final"]), len(run["gen"].normals), len(run["gen"].others))
        return True

    def check_probe_and_final(tag, run, traj, klass, draws=None):
        """Oracle 2: the state after every step and the final state equal the reference."""
        anchored = None
        if getattr(B, "ramp", False):
            # non-Lipschitz noise amplitude: every step is judged from the OBSERVED state before it; a final state whose
            # predecessor was not observed is not compared with the reference (the runs are still compared with each other)
            anchored = {}
            for (t_, data_) in run["probe"]:
                anchored[int(round((t_ - plan["t_start"]) / dt))] = np.array(data_, copy=True)
            if draws is not None and anchored:
                traj = _reference(plan, B, draws, len(traj) - 1, lib_rate, anchors=anchored)
                probe("reference_anchored_at_observed_states")
        scale = max(float(np.max(np.abs(t_))) for t_ in traj)
        seen = set()
        for (t, data) in run["probe"]:
            k = int(round((t - plan["t_start"]) / dt))
            if not 0 <= k < len(traj):
                continue
            seen.add(k)
            log.add("step", tag, k, fbits(t), fbits(data))
            if not close(data, traj[k], scale):
                fail(klass, f"{tag}: state after step {k} (t={t!r}) is not the documented update of the state before it; "
                     f"{_describe_mismatch(data, traj[k], B)}; {where}")
                return
        if run["probe"] and len(seen) < run["steps"] + 1:
            probe("steps_not_observed_by_probe", run["steps"] + 1 - len(seen))
        s = run["steps"]
        if anchored is not None and (draws is None or (s - 1) not in anchored):
            probe("final_state_of_non_lipschitz_plan_not_compared_with_reference")
            return
        if s < len(traj) and not close(run["final"], traj[s], scale):
            fail(klass, f"{tag}: final state after {s} steps differs from the reference; "
                 f"{_describe_mismatch(run['final'], traj[s], B)}; {where}")

    # ------------------------------------------------------------------ reach probes of the plan
    if B.nonuniform:
        probe("nonuniform_volumes")
    if int(np.prod(B.grid.shape)) == 1:
        probe("one_cell_grid")
    if not B.autonomous:
        probe("nonautonomous_rate")
    if plan["eq"]["kind"] != "linear":
        probe("library_equation")
    if numba_mode:
        probe("numba_python_mode")
    if not zero:
        if B.noise_kind == "mult":
            probe("multiplicative_noise")
            if getattr(B, "ramp", False):
                probe("variance_zero_where_its_derivative_is_not")
        if B.noise_kind == "per_field":
            probe("collection_per_field_variance")
            if any(v == 0.0 for v in B.per_field_vars):
                probe("collection_field_without_noise")
        if B.noise_kind == "per_component":
            probe("per_component_variance")
        if solver == "milstein":
            probe("milstein")
        if solver == "implicit":
            probe("implicit")
        if ALPHA[plan["interp"]] != 0.0 and solver != "implicit" and B.noise_kind == "mult":
            probe("noise_drift_term")

    # ------------------------------------------------------------------ zero variance (oracle 4)
    if zero:
        probe("zero_variance")
        z = _run(plan, B, probe=True, extras=True)
        if not check_run_ok("Z", z):
            return finish()
        # "the deterministic solver": the same rate without any noise machinery; the Milstein solver only exists
        # for stochastic equations, its deterministic counterpart is the explicit Euler solver
        d = _run(plan, B, probe=True, extras=True, deterministic=True, solver="euler" if solver == "milstein" else solver)
        if not check_run_ok("D", d):
            return finish()
        if numba_mode:
            if z["randn"]:
                fail("C13/zero-variance-draws", f"zero variance, yet numpy.random.randn was called {len(z['randn'])} times; {where}")
        else:
            g = z["gen"]
            if g.normals or g.others:
                fail("C13/zero-variance-draws", f"zero variance ({B.noise_arg!r}), yet the generator was used: "
                     f"{len(g.normals)} standard_normal calls, other methods {g.others[:4]}; {where}")
            elif g.bit_generator.state != np.random.PCG64(int(plan["seed"])).state:
                fail("C13/zero-variance-draws", f"zero variance, yet the bit generator's state changed; {where}")
        if z["steps"] != d["steps"] or z["final"].tobytes() != d["final"].tobytes():
            fail("C13/zero-variance-state", f"noise={B.noise_arg!r}: result differs from the deterministic solver "
                 f"({z['steps']} vs {d['steps']} steps); {_describe_mismatch(z['final'], d['final'], B) if z['final'].shape == d['final'].shape else ''}; {where}")
        elif len(z["probe"]) != len(d["probe"]) or any(a[0] != b[0] or a[1].tobytes() != b[1].tobytes()
                                                        for a, b in zip(z["probe"], d["probe"])):
            fail("C13/zero-variance-state", f"noise={B.noise_arg!r}: per-step states differ from the deterministic solver; {where}")
        if solver != "implicit":
            # the deterministic result itself: u + dt*f(u, t) (all noise terms vanish)
            traj = _reference(plan, B, [np.zeros(B.shape)] * (z["steps"] + 1), z["steps"], lib_rate)
            check_probe_and_final("Z", z, traj, "C13/zero-variance-state")
        return finish()

    # ------------------------------------------------------------------ P: probe + extras
    p = _run(plan, B, probe=True, extras=True)
    if not check_run_ok("P", p):
        return finish()
    steps = p["steps"]

    if numba_mode:
        # oracle 5: the formulas on the numba code path, with the normal numbers it actually drew
        draws = p["randn"]
        for k, (shape, values) in enumerate(draws[:60]):
            log.add("randn", k, list(shape), fbits(values))
        if len(draws) == steps and all(v.shape == B.shape for _, v in draws):
            traj = _reference(plan, B, [v for _, v in draws], steps, lib_rate)
            check_probe_and_final("P", p, traj, "C13/numba-step-formula", draws=[v for _, v in draws])
        else:
            # "a standard normal number per cell and component": however the numba path organises its calls, a step cannot
            # use fewer normal numbers than the state has entries with a non-vanishing variance
            var0, _ = B.variance(B.u0)
            noisy = int(np.count_nonzero(np.broadcast_to(np.asarray(var0, dtype=float), B.shape)))
            per_step = sum(int(np.size(v)) for _, v in draws) / max(steps, 1)
            if steps > 0 and per_step < noisy:
                fail("C13/numba-noise-not-per-component",
                     f"numba path drew {per_step:g} normal numbers per step (calls of shapes {[list(sh) for sh, _ in draws[:4]]}) for a state of "
                     f"shape {list(B.shape)} with {noisy} noisy entries: components or cells share their noise; {where}")
            probe("numba_draws_not_reconstructed")
        return finish()

    # ------------------------------------------------------------------ oracle 1: draw discipline
    def check_draws(tag, run):
        g = run["gen"]
        if not run["rng_is_gen"]:
            fail("C13/generator-replaced", f"{tag}: eq.rng is not the generator given to the equation; {where}")
            return False
        if g.others:
            fail("C13/other-generator-method", f"{tag}: generator methods other than standard_normal were used: {g.others[:6]} "
                 f"({len(g.normals)} standard_normal calls, {run['steps']} steps); {where}")
            return False
        if len(g.normals) != run["steps"]:
            key = None
            nonzero = [abs(float(v)) for v in np.ravel(B.var_arr) if v != 0.0] if B.var_arr is not None else []
            if not g.normals and nonzero and max(nonzero) <= 1e-14:
                key = "C13/tiny-variance-treated-as-deterministic"
            fail("C13/draw-count", f"{tag}: {len(g.normals)} standard_normal calls for {run['steps']} steps "
                 f"({len(plan['trackers'])} extra trackers; largest variance {max(nonzero) if nonzero else None!r}, "
                 f"smallest cell volume {float(np.min(B.vol))!r}); {where}", key=key)
            return False
        for k, (args, kwargs, values) in enumerate(g.normals):
            size = args[0] if args else kwargs.get("size")
            try:
                size_t = tuple(int(s) for s in size) if size is not None and not isinstance(size, (int, np.integer)) \
                    else (None if size is None else (int(size),))
            except TypeError:
                size_t = None
            extra_kw = {k_: v for k_, v in kwargs.items() if k_ != "size"}
            if size_t != B.shape or len(args) > 1 or extra_kw or values.shape != B.shape or values.dtype != np.float64:
                fail("C13/draw-shape", f"{tag}: standard_normal call #{k} had arguments {_short(args)} {_short(kwargs)} and returned "
                     f"shape {values.shape}, expected one call of shape state.data.shape={B.shape}; {where}")
                return False
        # the recorded numbers are exactly the successive draws of a generator seeded the same way, and nothing
        # consumed the bit generator behind the recorder's back
        fresh = np.random.Generator(np.random.PCG64(int(plan["seed"])))
        for k, (_a, _k, values) in enumerate(g.normals):
            if fresh.standard_normal(B.shape).tobytes() != values.tobytes():
                fail("C13/draws-not-successive", f"{tag}: draw #{k} is not the {k}-th successive draw of PCG64({plan['seed']}); {where}")
                return False
        if fresh.bit_generator.state != g.bit_generator.state:
            fail("C13/draws-not-successive", f"{tag}: the bit generator was advanced outside the recorded standard_normal calls; {where}")
            return False
        return True

    for k, (_a, _k, values) in enumerate(p["gen"].normals[:60]):
        log.add("draw", k, list(values.shape), fbits(values))
    for o in p["gen"].others[:20]:
        log.add("other-method", o)
    draws_ok = check_draws("run with per-step probe", p)

    # ------------------------------------------------------------------ oracle 2: every step against the reference
    traj = None
    if draws_ok:
        traj = _reference(plan, B, [v for _, _, v in p["gen"].normals], steps, lib_rate)
        check_probe_and_final("run with per-step probe", p, traj, "C13/step-formula", draws=[v for _, _, v in p["gen"].normals])

    # ------------------------------------------------------------------ oracles 1+3: other tracker sets, same seed
    def compare_runs(tag, run):
        if not check_draws(tag, run):
            return
        a, b = p["gen"].normals, run["gen"].normals
        m = min(len(a), len(b))
        if any(a[i][2].tobytes() != b[i][2].tobytes() for i in range(m)):
            fail("C13/draws-depend-on-trackers", f"{tag}: same seed, different normal numbers than the run with the per-step probe; {where}")
            return
        if run["steps"] == steps:
            same = run["final"].tobytes() == p["final"].tobytes()
            if not same and not B.autonomous and traj is not None:
                scale = max(float(np.max(np.abs(t_))) for t_ in traj)
                same = close(run["final"], p["final"], scale)
            if not same:
                fail("C13/not-reproducible", f"{tag}: same seed {plan['seed']}, same {steps} steps, but the final state differs from the "
                     f"run with the per-step probe (autonomous rate: {B.autonomous}); {_describe_mismatch(run['final'], p['final'], B)}; {where}")
        elif traj is not None and draws_ok:
            ref = _reference(plan, B, [v for _, _, v in run["gen"].normals], run["steps"], lib_rate)
            check_probe_and_final(tag, run, ref, "C13/step-formula", draws=[v for _, _, v in run["gen"].normals])

    if plan["trackers"]:
        e = _run(plan, B, probe=False, extras=True)
        if check_run_ok("E", e):
            t_lo, t_hi = plan["t_start"] + 0.25 * dt, plan["t_start"] + (e["steps"] - 0.25) * dt
            cuts = len({t for t in e["cuts"] if t_lo < t < t_hi})
            stats["faults"]["segments_cut_by_trackers"] = cuts
            stats["faults"]["runs_cut_by_trackers"] = int(cuts > 0)
            log.add("cuts", cuts)
            compare_runs("run with the extra trackers only", e)
    stats["faults"]["extra_trackers_configured"] = len(plan["trackers"])
    r0 = _run(plan, B, probe=False, extras=False)
    if check_run_ok("0", r0):
        compare_runs("run with tracker=None", r0)
    if not B.autonomous:
        p2 = _run(plan, B, probe=True, extras=True)
        if check_run_ok("P2", p2):
            if p2["steps"] != steps or p2["final"].tobytes() != p["final"].tobytes() or len(p2["probe"]) != len(p["probe"]) \
                    or any(x[0] != y[0] or x[1].tobytes() != y[1].tobytes() for x, y in zip(p["probe"], p2["probe"])):
                fail("C13/not-reproducible", f"two identical runs with seed {plan['seed']} are not bit-identical; {where}")
    return finish()


# ======================================================================================
# minimisation
# ======================================================================================


def shrink_lists(plan):
    return ["trackers"]


def simplify(plan):
    def variant(fn):
        p = copy.deepcopy(plan)
        fn(p)
        return p

    n = plan["n"]
    for new_n in sorted({n // 2, n - 1, 1, 2, 3, 5} - {n}):
        if 1 <= new_n < n:
            yield variant(lambda p, v=new_n: p.update(n=v))
    if plan["backend"] != "numpy":
        yield variant(lambda p: p.update(backend="numpy"))
    if plan["eq"]["kind"] != "linear":
        def to_linear(p):
            p["eq"] = {"kind": "linear", "a": -0.1 / p["dt"], "a_spread": 0.0, "b": 0.0, "w": 0.0}
        yield variant(to_linear)
    else:
        if plan["eq"].get("b"):
            yield variant(lambda p: p["eq"].update(b=0.0, w=0.0))
        if plan["eq"].get("a_spread"):
            yield variant(lambda p: p["eq"].update(a_spread=0.0))
    if plan["eq"]["kind"] == "linear":
        if plan["state"]["kind"] == "collection" and len(plan["state"].get("ranks", [])) > 2:
            yield variant(lambda p: p["state"].update(ranks=p["state"]["ranks"][:2]))
        if plan["state"]["kind"] != "scalar":
            yield variant(lambda p: p["state"].update(kind="scalar"))
    if plan["state"].get("u0_signed"):
        yield variant(lambda p: p["state"].update(u0_signed=False))
    if plan["grid"] != {"kind": "unit", "shape": [2], "periodic": False}:
        yield variant(lambda p: p.update(grid={"kind": "unit", "shape": [2], "periodic": False}))
        if plan["grid"]["kind"] != "cart" or plan["grid"]["shape"] != [2]:
            yield variant(lambda p: p.update(grid={"kind": "cart", "bounds": [[0.0, 1.0]], "shape": [2], "periodic": [False]}))
    if plan["noise"]["kind"] == "mult":
        yield variant(lambda p: p.update(noise={"kind": "scalar", "vars": [p["noise"]["s0"] or p["noise"]["s1"]]}))
        if plan["noise"].get("form") == "ramp":
            yield variant(lambda p: [p["noise"].pop("form"), p["noise"].pop("zero_cells", None)])
        if plan["noise"].get("spread"):
            yield variant(lambda p: p["noise"].update(spread=0.0))
    elif plan["noise"]["kind"] != "scalar":
        keep = {k: v for k, v in plan["noise"].items() if k == "zero_form"}
        first = next((v for v in plan["noise"]["vars"] if v), 0.0)
        yield variant(lambda p: p.update(noise={"kind": "scalar", "vars": [first], **keep}))
    if plan.get("prior"):
        yield variant(lambda p: p.pop("prior"))
    if plan["interp"] != "ito":
        yield variant(lambda p: p.update(interp="ito"))
    if plan.get("interp_via") == "attr":
        yield variant(lambda p: p.update(interp_via="ctor"))
    if plan["solver"] != "euler":
        yield variant(lambda p: p.update(solver="euler"))
    if plan["t_start"] != 0.0:
        yield variant(lambda p: p.update(t_start=0.0))
    for j, tr in enumerate(plan["trackers"]):
        if tr["kind"] != "rec":
            yield variant(lambda p, j=j: p["trackers"][j].update(kind="rec"))
        if tr["interrupt"]["type"] != "const":
            yield variant(lambda p, j=j: p["trackers"][j].update(interrupt={"type": "const", "dt": 2 * p["dt"]}))
