"""C20 - in-memory storage returns exactly what was stored, in order.
Engine: storage-sim (this file); DESIGN.md 4.9.

A plan is a header (three grids, three field kinds, dtype) and a flat list of operations on a
small pool of live storages and live fields.  Operations name objects by slot number modulo
the number of live objects, so every sub-list of a plan is a valid plan.  The executable
reference model of one storage is a list of frames (time, bytes of field.data at append
time, shape, dtype) plus the write mode, the template (class / grid of the fields read
back), the data shape and whether a writing session is open.  After EVERY operation every
live storage is compared with its model: times, len, len(times) == len(data), the stored
arrays and every frame read back through storage[i]; nothing read back may share memory with
the stored arrays, no stored array may share memory with a live field.

What is asserted follows the docstrings and the explicit `raise` statements of
pde/storage/base.py and pde/storage/memory.py; where they are silent both outcomes are
accepted and counted under stats["lenient"] (see ASSUMPTIONS).
"""

from __future__ import annotations

import copy

import numpy as np

from sim import clock as simclock
from sim.core import EventLog, digest_of, fbits, violation

PROPERTY = "C20"
ISOLATE = True
TIERS = {
    "quick": {"runs": 8000, "budget_s": 100, "timeout_s": 40, "chunk": 16, "det_sample": 48, "det_runs": 300},
    "thorough": {"runs": 150000, "budget_s": 700, "timeout_s": 120, "chunk": 16, "det_sample": 64, "det_runs": 1000},
}
RULE = ("seeded plans: header (3 grids: main / same shape but unequal / other shape; 3 field kinds out of ScalarField, "
        "VectorField, Tensor2Field, FieldCollection of mixed ranks; real or complex dtype) + 8-45 operations on <= 5 live "
        "MemoryStorage objects and <= 6 live fields (create storage in each write mode and by each constructor, "
        "start_writing, append, end_writing, clear, set write_mode, reads, extract_field, extract_time_range, view_field, "
        "copy, apply, from_collection, mutate source / read-back fields, storage.tracker() inside a real eq.solve run that "
        "may be stopped or aborted); every 4th plan is fault-free; a plan is non-trivial if at least one fault fired or at "
        "least two writing sessions were started; distinct = distinct (header, ops)")
PROBES = ["probes/dtype_escalated", "probes/read_fixed_negative_index", 
    "faults/fired_append_wrong_grid", "faults/fired_append_wrong_shape", "faults/fired_append_no_shape",
    "faults/fired_apply_raises", "faults/fired_session_aborted", "faults/fired_readonly_start",
    "faults/fired_start_wrong_shape", "faults/fired_sim_aborted_by_other_tracker",
    "probes/new_session_after_aborted", "probes/truncate_once_second_session",
    "probes/truncate_once_second_session_frames_survive", "probes/truncate_cleared_frames",
    "probes/read_after_source_mutation", "probes/read_after_readback_mutation", "probes/append_without_session",
    "probes/append_nonincreasing_time", "probes/append_implicit_time", "probes/template_replaced_frames_survive",
    "probes/new_shape_after_clear_data_shape", "probes/sim_runs", "probes/sim_adaptive", "probes/sim_stopped_by_StopIteration",
    "probes/sim_aborted_then_new_session", "probes/extract_field_second_or_later", "probes/extract_field_by_label",
    "probes/extract_time_range_boundary", "probes/extract_time_range_proper_subset", "probes/view_field_frames",
    "probes/copy_into_existing", "probes/apply_into_existing", "probes/apply_partial_output", "probes/from_collection",
    "probes/from_collection_two_storages",
    "probes/derived_storage_written_to", "probes/frames_compared",
]
COMPONENTS = {
    "real": ["pde.storage.memory.MemoryStorage (all constructors)", "pde.storage.base.StorageBase", "pde.storage.base.StorageTracker",
             "pde.storage.base.StorageView", "pde.fields.{ScalarField,VectorField,Tensor2Field,FieldCollection}",
             "UnitGrid / CartesianGrid / PolarSymGrid / CylindricalSymGrid",
             "pde.solvers.controller.Controller + TrackerCollection + euler / runge-kutta (fixed and adaptive) for the tracker runs",
             "pde.trackers.CallbackTracker (recorder and stop/abort tracker)"],
    "stub": ["wall clock of the run loop (sim.clock.SimClock; only profiling information depends on it)",
             "LLVM code generation (NUMBA_DISABLE_JIT=1; the runs use backend='numpy')"],
    "client_code": ["LinearEq du/dt = a*u on any field class", "DiffusionPDE on scalar fields of Cartesian grids",
                    "functions handed to storage.apply (identity, scale, add time, first sub-field, mutate-argument, raise at k-th frame)",
                    "transformations handed to storage.tracker (1 and 2 arguments)"],
}
ASSUMPTIONS = [
    "dtypes: float64 or complex128 per plan; 30% of the real plans switch to complex fields at some point, so that later "
    "sessions of a storage hold another dtype than earlier ones - but only 'upwards': a complex frame is never put under a real "
    "template and a real template never over surviving complex frames, because such a frame is read back with the imaginary "
    "part dropped on the unchanged tree (numpy ComplexWarning) and the documentation does not say whether that is supported "
    "(reported as a doubtful case, not asserted)",
    "40% of the plans verify 'lightly': the per-operation comparison reads the stored arrays directly and the public read path "
    "is exercised only by the plan's own read operations, so that the oracle's reads cannot mask what a user's reads would see",
    "the explicit raise statements of the storage classes count as documentation: start_writing in readonly mode -> RuntimeError; "
    "start_writing with another data shape while a data shape is set -> ValueError; append with an unequal grid or another data "
    "shape -> ValueError; index out of range -> IndexError; extract_field of a non-collection -> TypeError; view_field of a "
    "non-collection -> RuntimeError",
    "the time given to a frame appended without a time is not documented: the model adopts the value the storage chose "
    "(counted when it is not 'last time + 1', the current rule)",
    "lenient (both outcomes accepted, counted): append in readonly mode (the docstring says writing is disabled completely, "
    "the code appends), append outside a writing session, append while no data shape is set (current code: RuntimeError "
    "'data_shape was not set'), extract_time_range on an empty storage (current code: IndexError), inclusion of a frame whose "
    "time equals a bound of extract_time_range, what an output storage holds after apply() was aborted by the user function "
    "(either untouched or the frames written so far)",
    "constructors MemoryStorage(times, data, ...) and from_fields keep references to the arrays they are given (not "
    "documented either way): the check hands them fresh arrays / fields that it never touches again",
    "the class and grid of a field read back are those of the most recent template (field_obj= or the field handed to the last "
    "successful start_writing); frames written under an earlier template of the same data shape are compared by data only",
    "the write mode of a storage returned by extract_field / extract_time_range / copy / apply / from_collection is not "
    "documented: the model adopts its write_mode attribute (counted when it is not what a default MemoryStorage would have)",
    "extract_time_range only on storages whose times are sorted; copy/apply never with out= the storage itself; "
    "from_collection only on storages with identical times, equal grids, non-collection templates and at least one frame",
    "ghost cells are not stored data: only field.data is compared",
    "<= 48 frames per storage (frame-adding operations are skipped beyond), <= 45 operations per plan in the quick tier",
]

MODES = ("truncate_once", "truncate", "append", "readonly")
CLASS_NAME = {"scalar": "ScalarField", "vector": "VectorField", "tensor": "Tensor2Field", "coll": "FieldCollection"}
RANK_KIND = {0: "scalar", 1: "vector", 2: "tensor"}
KIND_RANK = {"scalar": 0, "vector": 1, "tensor": 2}
MAX_STORAGES = 5
MAX_FIELDS = 6
MAX_FRAMES = 48
APPLY_FUNCS = ("ident", "scale2", "addt", "first", "mut", "raise")


def prepare():
    from sim.prewarm import prewarm_pde

    prewarm_pde()


# ======================================================================================
# plan generation (pure function of rng)
# ======================================================================================


def _pick(rng, seq):
    return seq[rng.randrange(len(seq))]


def _grid_dim(spec):
    return {"unit": len(spec["shape"]), "cart": len(spec["shape"]), "polar": 2, "cyl": 3}[spec["kind"]]


def _gen_grids(rng):
    fam = _pick(rng, ("unit", "unit", "unit2", "cart", "cart2", "polar", "cyl"))
    if fam == "unit":
        n = rng.randint(2, 5)
        g0 = {"kind": "unit", "shape": [n], "periodic": [rng.random() < 0.3]}
        g1 = {"kind": "unit", "shape": [n], "periodic": [not g0["periodic"][0]]}
        if rng.random() < 0.4:
            g1 = {"kind": "cart", "shape": [n], "lengths": [n * 0.5], "periodic": list(g0["periodic"])}
        g2 = {"kind": "unit", "shape": [n + rng.randint(1, 2)], "periodic": list(g0["periodic"])}
    elif fam == "unit2":
        nx, ny = rng.randint(2, 3), rng.randint(2, 4)
        g0 = {"kind": "unit", "shape": [nx, ny], "periodic": [rng.random() < 0.3, rng.random() < 0.3]}
        g1 = {"kind": "unit", "shape": [nx, ny], "periodic": [not g0["periodic"][0], g0["periodic"][1]]}
        g2 = _pick(rng, ({"kind": "unit", "shape": [ny + 1, nx], "periodic": [False, False]},
                         {"kind": "unit", "shape": [nx * ny], "periodic": [False]}))
    elif fam == "cart":
        n = rng.randint(2, 5)
        g0 = {"kind": "cart", "shape": [n], "lengths": [_pick(rng, (1.0, 2.5, 0.3))], "periodic": [rng.random() < 0.3]}
        g1 = {"kind": "cart", "shape": [n], "lengths": [g0["lengths"][0] * 2], "periodic": list(g0["periodic"])}
        g2 = {"kind": "cart", "shape": [n + 1], "lengths": list(g0["lengths"]), "periodic": list(g0["periodic"])}
    elif fam == "cart2":
        nx, ny = rng.randint(2, 3), rng.randint(2, 3)
        g0 = {"kind": "cart", "shape": [nx, ny], "lengths": [1.0, 2.0], "periodic": [rng.random() < 0.3, False]}
        g1 = {"kind": "cart", "shape": [nx, ny], "lengths": [1.0, 3.0], "periodic": list(g0["periodic"])}
        g2 = {"kind": "cart", "shape": [nx + 1, ny], "lengths": [1.0, 2.0], "periodic": list(g0["periodic"])}
    elif fam == "polar":
        n = rng.randint(2, 4)
        g0 = {"kind": "polar", "shape": [n], "radius": 2.0}
        g1 = _pick(rng, ({"kind": "polar", "shape": [n], "radius": 3.0}, {"kind": "unit", "shape": [n], "periodic": [False]}))
        g2 = {"kind": "polar", "shape": [n + 1], "radius": 2.0}
    else:
        nr, nz = 2, rng.randint(2, 3)
        g0 = {"kind": "cyl", "shape": [nr, nz], "radius": 2.0, "length": 1.0}
        g1 = {"kind": "cyl", "shape": [nr, nz], "radius": 2.0, "length": 2.0}
        g2 = {"kind": "cyl", "shape": [nr + 1, nz], "radius": 2.0, "length": 1.0}
    return [g0, g1, g2]


def _gen_coll(rng, ranks=None):
    if ranks is None:
        ranks = list(_pick(rng, ([0, 0], [0, 1], [1, 0], [0, 0, 0], [0], [0, 1, 2], [1, 1], [2, 0], [0, 1, 0])))
    letters = ["a", "b", "c", "d"]
    labels = letters[:len(ranks)]
    if len(ranks) >= 2 and rng.random() < 0.2:
        labels[1] = labels[0]  # duplicate label: lookups by label must find the first one
    return {"cls": "coll", "ranks": ranks, "labels": labels, "label": _pick(rng, (None, "col"))}


def _gen_kinds(rng, dim):
    simple = [{"cls": "scalar", "label": _pick(rng, (None, "s"))}, {"cls": "vector", "label": _pick(rng, (None, "v"))},
              {"cls": "tensor", "label": _pick(rng, (None, "T"))}]
    r = rng.random()
    if r < 0.30:
        k0 = simple[0]
    elif r < 0.42:
        k0 = simple[1]
    elif r < 0.50:
        k0 = simple[2]
    else:
        k0 = _gen_coll(rng)
    # k1: same data shape but another class / structure where one exists
    k1 = None
    if k0["cls"] == "vector":
        k1 = _gen_coll(rng, [0] * dim)
    elif k0["cls"] == "coll":
        comps = sum(dim ** r for r in k0["ranks"])
        cands = []
        if comps == dim:
            cands.append(simple[1])
        if len(k0["ranks"]) >= 2 and k0["ranks"] != k0["ranks"][::-1]:
            cands.append(_gen_coll(rng, k0["ranks"][::-1]))
        if any(k0["ranks"]):
            cands.append(_gen_coll(rng, [0] * comps) if comps <= 4 else None)
        cands = [c for c in cands if c]
        if cands:
            k1 = _pick(rng, cands)
    if k1 is None:
        k1 = _pick(rng, [k for k in simple if k["cls"] != k0["cls"]] + [_gen_coll(rng)])
    k2 = _pick(rng, simple + [_gen_coll(rng)])
    return [k0, k1, k2]


def _gen_interrupt(rng, dt, t0, n):
    r = rng.random()
    if r < 0.55:
        return {"type": "const", "dt": _pick(rng, (dt, 2 * dt, 3 * dt, 0.3, 0.7 * dt, 1.5 * dt))}
    if r < 0.8:
        k = rng.randint(0, 4)
        times = sorted(t0 + rng.randint(0, n) * dt + _pick(rng, (0.0, 0.0, 0.1 * dt)) for _ in range(k))
        return {"type": "fixed", "times": times}
    return {"type": "number", "dt": _pick(rng, (1, 2 * dt))}


def gen_plan(rng, tier, idx):
    big = tier == "thorough"
    fault_free = idx % 4 == 0
    dtype = "complex" if rng.random() < 0.25 else "real"
    grids = _gen_grids(rng)
    kinds = _gen_kinds(rng, _grid_dim(grids[0]))
    n_target = rng.randint(8, 80 if big and rng.random() < 0.3 else 42)
    # swarm: each run enables a random subset of the operation families
    fams = ["session", "append", "clear", "mode", "read", "extract_field", "extract_time", "view", "copy", "apply",
            "sim", "mutate", "new_storage", "new_field", "end"]
    weight = {f: (rng.choice((1, 2, 3)) if rng.random() < 0.75 else 0) for f in fams}
    weight["session"] = max(weight["session"], 1) + 1
    weight["append"] = max(weight["append"], 1)
    weight["read"] = max(weight["read"], 1)
    if rng.random() < 0.5:
        weight["sim"] = max(weight["sim"], 2)
    bag = [f for f in fams for _ in range(weight[f])]
    state = {"tc": 0.0}

    def seed():
        return rng.randrange(1 << 30)

    def slot_s():
        return _pick(rng, (0, 0, 0, 1, 1, 2, 3, 4))

    def slot_f():
        if fault_free:
            return _pick(rng, (0, 0, 0, 1, 2))
        return _pick(rng, (0, 0, 0, 0, 1, 2, 3, 4, 5))

    def a_time():
        r = rng.random()
        if r < 0.4:
            return None
        if r < 0.85:
            state["tc"] += _pick(rng, (0.5, 1, 0.25, 2, 1.0, 0.1))
            return state["tc"]
        if r < 0.93:
            return state["tc"]  # repeated time
        return state["tc"] - _pick(rng, (0.5, 1, 3))  # going backwards

    def gen_append(s=None, f=None):
        return {"op": "append", "s": slot_s() if s is None else s, "f": slot_f() if f is None else f, "time": a_time()}

    def gen_read(s=None):
        how = _pick(rng, ("index", "index", "neg", "last", "last", "slice", "iter", "items", "oob"))
        op = {"op": "read", "s": slot_s() if s is None else s, "how": how, "i": rng.randint(0, 12),
              "mutate": rng.random() < 0.5, "keep": rng.random() < 0.15}
        if how == "slice":
            op["slice"] = [_pick(rng, (None, 0, 1, 2, -2)), _pick(rng, (None, 1, 3, -1, 100)), _pick(rng, (None, 1, 2, -1))]
        return op

    def gen_mutate(f=None):
        return {"op": "mutate", "f": slot_f() if f is None else f, "how": _pick(rng, ("assign", "scale", "sub", "fill")),
                "seed": seed()}

    def gen_field():
        if fault_free:
            return {"op": "field", "g": 0, "k": 0, "seed": seed()}
        g, k = _pick(rng, ((0, 0), (0, 1), (0, 1), (1, 0), (2, 0), (0, 2), (1, 1), (2, 2)))
        return {"op": "field", "g": g, "k": k, "seed": seed()}

    def gen_new_storage():
        how = _pick(rng, ("empty", "empty", "empty_tmpl", "data", "data", "from_fields", "from_fields", "from_collection",
                          "from_fields_none"))
        n = _pick(rng, (0, 1, 2, 3, 5)) if how == "data" else _pick(rng, (1, 2, 3, 4))
        t, times = _pick(rng, (0.0, 0.0, -1.0, 2.5)), []
        for _ in range(n):
            times.append(t)
            t += _pick(rng, (1.0, 0.5, 0.25, 1, 0.0 if rng.random() < 0.1 else 1.0))
        mode = _pick(rng, (None, None, "truncate_once", "truncate", "append", "append")
                     if fault_free else (None, None, "truncate_once", "truncate", "append", "readonly", "readonly"))
        return {"op": "new_storage", "how": how, "mode": mode, "f": slot_f(), "times": times, "seed": seed(),
                "info": _pick(rng, (None, None, {"who": "plan"})), "srcs": [slot_s(), slot_s()],
                "label": _pick(rng, (None, "merged")), "slot": rng.randint(0, MAX_STORAGES - 1)}

    def gen_sim(s=None):
        dt = _pick(rng, (0.1, 0.25, 0.5, 0.2))
        t0 = _pick(rng, (0, 0, 0.0, 1.0, -0.5, 2.5))
        n = rng.randint(1, 10)
        adaptive = rng.random() < 0.3
        stop = None
        if not fault_free and rng.random() < 0.55:
            stop = {"kind": _pick(rng, ("StopIteration", "RuntimeError", "RuntimeError")), "at": rng.randint(0, 4),
                    "pos": _pick(rng, ("before", "after")), "interrupt": _gen_interrupt(rng, dt, t0, n)}
        elif rng.random() < 0.2:
            stop = {"kind": "StopIteration", "at": rng.randint(0, 3), "pos": _pick(rng, ("before", "after")),
                    "interrupt": _gen_interrupt(rng, dt, t0, n)}
        return {"op": "sim", "s": slot_s() if s is None else s, "f": slot_f(), "eq": _pick(rng, ("linear", "linear", "diffusion")),
                "a": _pick(rng, (-0.5, -1.0, 0.3)), "solver": _pick(rng, ("euler", "runge-kutta")), "adaptive": adaptive,
                "dt": dt, "t0": t0, "n": n, "scalar_range": rng.random() < 0.3,
                "interrupt": _gen_interrupt(rng, dt, t0, n), "transform": _pick(rng, (None, None, "one", "two", "copy")),
                "stop": stop, "clock_seed": seed()}

    def gen_out():
        return None if rng.random() < 0.45 else rng.randint(0, 3)

    def gen_derived(s=None):
        s = slot_s() if s is None else s
        fam = _pick(rng, ("extract_field", "extract_time", "extract_time", "view", "copy", "apply"))
        slot = rng.randint(0, MAX_STORAGES - 1)
        if fam == "extract_field":
            return {"op": "extract_field", "s": s, "idx": rng.randint(0, 3), "by_label": rng.random() < 0.4,
                    "label": _pick(rng, (None, None, "renamed")), "keep": rng.random() < 0.4, "slot": slot}
        if fam == "extract_time":
            return {"op": "extract_time", "s": s, "how": _pick(rng, ("scalar", "tuple", "tuple", "none")),
                    "a": rng.randint(-1, 10), "b": rng.randint(-1, 12), "keep": rng.random() < 0.4, "slot": slot}
        if fam == "view":
            return {"op": "view", "s": s, "idx": rng.randint(0, 3), "by_label": rng.random() < 0.4}
        if fam == "copy":
            return {"op": "copy", "s": s, "out": gen_out(), "keep": rng.random() < 0.5, "slot": slot}
        funcs = APPLY_FUNCS[:-1] if fault_free else APPLY_FUNCS + ("raise",)
        return {"op": "apply", "s": s, "func": _pick(rng, funcs), "k": rng.randint(0, 4), "out": gen_out(),
                "keep": rng.random() < 0.5, "slot": slot}

    ops = []
    # a few extra fields early on so that "another grid / shape / class" exists in the pool
    if not fault_free:
        for _ in range(rng.randint(0, 3)):
            ops.append(gen_field())
    elif rng.random() < 0.5:
        ops.append(gen_field())
    while len(ops) < n_target:
        fam = _pick(rng, bag)
        if fam == "session":
            s = slot_s()
            f = slot_f() if rng.random() < 0.3 else 0
            ops.append({"op": "start", "s": s, "f": f, "info": _pick(rng, (None, None, {"run": rng.randint(0, 9)}))})
            for _ in range(rng.randint(0, 5)):
                r = rng.random()
                if r < 0.62:
                    ops.append(gen_append(s, f if rng.random() < 0.85 else None))
                elif r < 0.8:
                    ops.append(gen_mutate(f))
                elif r < 0.9:
                    ops.append(gen_read(s))
                else:
                    ops.append({"op": "clear", "s": s, "shape": rng.random() < 0.3})
            if rng.random() < 0.35:  # look at the session's frames through a derived view while they are there
                ops.append(gen_derived(s))
            if rng.random() < (0.9 if fault_free else 0.6):
                ops.append({"op": "end", "s": s})
        elif fam == "append":
            ops.append(gen_append())
        elif fam == "clear":
            ops.append({"op": "clear", "s": slot_s(), "shape": rng.random() < 0.4})
        elif fam == "mode":
            modes = MODES[:3] if fault_free else MODES
            ops.append({"op": "mode", "s": slot_s(), "mode": _pick(rng, modes)})
        elif fam == "read":
            ops.append(gen_read())
            if rng.random() < 0.25:
                # poll the newest frame around an append: the same (negative) index must follow the growing storage
                s = ops[-1]["s"]
                k = rng.randint(0, 1)
                ops[-1] = {"op": "read", "s": s, "how": "last", "i": k, "mutate": False, "keep": False}
                ops.append(gen_append(s, 0 if rng.random() < 0.7 else None))
                ops.append({"op": "read", "s": s, "how": "last", "i": k, "mutate": rng.random() < 0.3, "keep": False})
        elif fam in ("extract_field", "extract_time", "view", "copy", "apply"):
            op = gen_derived()
            tries = 0
            while op["op"] != fam and tries < 8:
                op = gen_derived()
                tries += 1
            ops.append(op)
        elif fam == "sim":
            ops.append(gen_sim())
            if rng.random() < 0.4:  # a second session on the same storage right away
                ops.append(gen_sim(ops[-1]["s"]) if rng.random() < 0.6 else
                           {"op": "start", "s": ops[-1]["s"], "f": ops[-1]["f"], "info": None})
        elif fam == "mutate":
            ops.append(gen_mutate())
        elif fam == "new_storage":
            ops.append(gen_new_storage())
        elif fam == "new_field":
            ops.append(gen_field())
        elif fam == "end":
            ops.append({"op": "end", "s": slot_s()})
    if dtype == "real" and rng.random() < 0.3 and len(ops) > 4:
        # from some point on the user works with complex fields: later sessions of a storage may hold another dtype
        # than earlier ones (only "upwards", real -> complex, see ASSUMPTIONS)
        pos = rng.randint(1, len(ops) - 1)
        ops[pos:pos] = [{"op": "escalate"}, gen_field(), gen_field()]
    return {"engine": "storage-sim", "prop": PROPERTY, "fault_free": fault_free, "dtype": dtype, "grids": grids,
            "kinds": kinds, "first_mode": _pick(rng, (None, None, "truncate_once", "truncate", "append")),
            # "light": the per-operation comparison looks at the stored arrays directly and reads through the public
            # read path only where the plan says so - the oracle's own reads must not mask what a user's reads would see
            "verify": "light" if rng.random() < 0.4 else "deep",
            "f0_seed": seed(), "ops": ops}


# ======================================================================================
# building objects from specs
# ======================================================================================


def _make_grid(spec):
    import pde

    k = spec["kind"]
    if k == "unit":
        return pde.UnitGrid(list(spec["shape"]), periodic=list(spec["periodic"]))
    if k == "cart":
        return pde.CartesianGrid([[0, float(L)] for L in spec["lengths"]], list(spec["shape"]), periodic=list(spec["periodic"]))
    if k == "polar":
        return pde.PolarSymGrid(float(spec["radius"]), int(spec["shape"][0]))
    if k == "cyl":
        return pde.CylindricalSymGrid(float(spec["radius"]), [0, float(spec["length"])], list(spec["shape"]))
    raise ValueError(k)


def _kind_key(kind):
    return (kind["cls"], tuple(kind.get("ranks", ())))


def _kind_shape(kind, grid):
    dim = grid.dim
    if kind["cls"] == "coll":
        return (sum(dim ** r for r in kind["ranks"]), *grid.shape)
    return (dim,) * KIND_RANK[kind["cls"]] + tuple(grid.shape)


def _sub_kind(kind, k):
    """kind of the k-th field of a collection kind"""
    return {"cls": RANK_KIND[kind["ranks"][k]], "label": kind["labels"][k]}


def _rand_array(rng, shape, dtype):
    a = rng.uniform(-1.0, 1.0, size=shape)
    if dtype == "complex":
        a = a + 1j * rng.uniform(-1.0, 1.0, size=shape)
    return a


def _dt_of(field):
    """'complex' / 'real' of a live field (after a dtype escalation the pool holds both)"""
    return "complex" if np.iscomplexobj(field.data) else "real"


def _np_dtype(dtype):
    return np.complex128 if dtype == "complex" else np.float64


def _make_field(grid, kind, seed, dtype):
    import pde

    rng = np.random.default_rng(int(seed))
    cls = {"scalar": pde.ScalarField, "vector": pde.VectorField, "tensor": pde.Tensor2Field}
    dt = _np_dtype(dtype)
    if kind["cls"] == "coll":
        subs = []
        for k, r in enumerate(kind["ranks"]):
            sk = RANK_KIND[r]
            subs.append(cls[sk](grid, _rand_array(rng, _kind_shape({"cls": sk}, grid), dtype), label=kind["labels"][k], dtype=dt))
        return pde.FieldCollection(subs, label=kind.get("label"), dtype=dt)
    return cls[kind["cls"]](grid, _rand_array(rng, _kind_shape(kind, grid), dtype), label=kind.get("label"), dtype=dt)


def _split(arr, kind, grid):
    """the data of the sub-fields of a collection frame, computed from the ranks alone"""
    dim = grid.dim
    out, o = [], 0
    for r in kind["ranks"]:
        c = dim ** r
        out.append(np.array(arr[o:o + c]).reshape((dim,) * r + tuple(grid.shape)))
        o += c
    return out


def _flat(arr, grid):
    return np.array(arr).reshape((-1, *grid.shape))


# ======================================================================================
# the reference model of one storage
# ======================================================================================


class _Model:
    def __init__(self, mode="truncate_once"):
        self.frames = []  # dicts: t, b (bytes), shape, dt (dtype.str), src (serial of the source field), smut, rmut
        self.mode = mode
        self.tmpl = None  # kind dict of the template field (class of what is read back)
        self.grid = None  # index into the plan's grids
        self.shape = None  # data shape the storage insists on
        self.open = False  # start_writing without end_writing so far
        self.aborted = False  # the open session was left behind by an aborted run
        self.sessions = 0
        self.switched = False  # truncate_once has turned into append
        self.derived = False

    def clone(self):
        m = _Model.__new__(_Model)
        m.__dict__.update(self.__dict__)
        m.frames = [dict(f) for f in self.frames]
        return m

    @property
    def times(self):
        return [f["t"] for f in self.frames]


def _frame(t, arr, src=None):
    a = np.ascontiguousarray(arr)
    return {"t": t, "b": a.tobytes(), "shape": tuple(a.shape), "dt": a.dtype.str, "src": src, "smut": False, "rmut": False}


def _frame_array(fr):
    return np.frombuffer(fr["b"], dtype=np.dtype(fr["dt"])).reshape(fr["shape"])


class _Violation(Exception):
    def __init__(self, klass, detail):
        super().__init__(klass)
        self.klass = klass
        self.detail = detail


class _Boom(RuntimeError):
    """raised by the user function handed to apply()"""


class _Abort(RuntimeError):
    """raised by another tracker of a simulated run (not a stop request)"""


def _exc_name(e):
    return type(e).__name__ if e is not None else None


def _through_storage(err) -> bool:
    tb = err.__traceback__
    while tb is not None:
        fn = tb.tb_frame.f_code.co_filename.replace("\\", "/")
        if "/pde/storage/" in fn:
            return True
        tb = tb.tb_next
    return False


# ======================================================================================
# execution
# ======================================================================================


class _Exec:
    def __init__(self, plan):
        self.plan = plan
        self.dtype = plan["dtype"]
        self.log = EventLog()
        self.stats = {"ops": {}, "faults": {}, "probes": {}, "lenient": {}, "skipped": {}}
        self.grids = [_make_grid(g) for g in plan["grids"]]
        n = len(self.grids)
        # equality of grids as py-pde sees it (e.g. UnitGrid([4]) == CartesianGrid([[0, 4]], 4))
        self.geq = [[bool(self.grids[i] == self.grids[j]) for j in range(n)] for i in range(n)]
        self.kinds = plan["kinds"]
        self.fields = []  # dicts: obj, g, kind, serial
        self.storages = []  # dicts: obj, m
        self.serial = 0
        self.sessions = 0
        self.cur = -1

    # ---- bookkeeping
    def count(self, group, name, n=1):
        d = self.stats[group]
        d[name] = d.get(name, 0) + n

    def probe(self, name, n=1):
        self.count("probes", name, n)

    def fault(self, name, n=1):
        self.count("faults", "fired_" + name, n)

    def fail(self, klass, detail):
        raise _Violation(klass, f"op #{self.cur} {canon_op(self.plan['ops'][self.cur]) if 0 <= self.cur < len(self.plan['ops']) else ''}: {detail}")

    def same_grid(self, a, b):
        return a is not None and b is not None and self.geq[a][b]

    # ---- pools
    def add_field(self, obj, g, kind, slot=None):
        self.serial += 1
        ent = {"obj": obj, "g": g, "kind": kind, "serial": self.serial}
        if len(self.fields) < MAX_FIELDS:
            self.fields.append(ent)
        else:
            self.fields[(slot if slot is not None else self.serial) % MAX_FIELDS] = ent
        return ent

    def add_storage(self, obj, m, slot=0):
        ent = {"obj": obj, "m": m}
        if len(self.storages) < MAX_STORAGES:
            self.storages.append(ent)
        else:
            self.storages[slot % MAX_STORAGES] = ent
        return ent

    def S(self, slot):
        return self.storages[int(slot) % len(self.storages)]

    def F(self, slot):
        return self.fields[int(slot) % len(self.fields)]

    # ---- comparing a storage with a model ------------------------------------------------
    def diff(self, st, m, deep=True):
        """None if the storage `st` holds exactly what model `m` says, else (class, detail)."""
        try:
            n = len(st)
            times = list(st.times)
            ndata = len(st.data)
        except Exception as e:  # noqa: BLE001
            return ("exception/len-times", f"len/times/data raised {type(e).__name__}: {e}")
        if ndata != len(times):
            return ("half-frame", f"len(times)={len(times)} but len(data)={ndata} (times={times!r})")
        if n != len(times):
            return ("frames-differ/len", f"len(storage)={n} but len(times)={len(times)}")
        want = m.times
        if len(times) != len(want):
            return ("frames-differ/count", f"storage holds {len(times)} frames at {times!r}, expected {len(want)} at {want!r} "
                    f"(mode now {m.mode!r}, sessions {m.sessions})")
        if any(not (a == b) for a, b in zip(times, want)):
            return ("frames-differ/times", f"storage times {times!r}, expected {want!r}")
        for i, fr in enumerate(m.frames):
            a = st.data[i]
            if tuple(a.shape) != fr["shape"]:
                return ("frames-differ/stored-shape", f"stored array {i} has shape {a.shape}, appended {fr['shape']}")
            if a.dtype.str == fr["dt"]:
                same = np.ascontiguousarray(a).tobytes() == fr["b"]
            else:
                same = bool(np.array_equal(a, _frame_array(fr)))
            if not same:
                return ("frames-differ/stored-data", f"stored array {i} (t={times[i]!r}) differs from the data at append time"
                        f"{' [source field was changed after appending]' if fr['smut'] else ''}"
                        f"{' [a field read back was changed]' if fr['rmut'] else ''}: {np.asarray(a).ravel()[:6]!r} vs "
                        f"{_frame_array(fr).ravel()[:6]!r}")
            for pf in self.fields:
                if np.shares_memory(a, pf["obj"].data):
                    return ("aliasing/stored-shares-live-field", f"stored array {i} shares memory with live field #{pf['serial']}")
        if not deep or m.tmpl is None or not m.frames:
            return None
        # every frame through the public read path; all read first, compared afterwards
        got = []
        for i in range(n):
            try:
                got.append(st[i])
            except Exception as e:  # noqa: BLE001
                return ("exception/read", f"storage[{i}] raised {type(e).__name__}: {e}")
        for i, fld in enumerate(got):
            d = self.diff_field(fld, m.tmpl, m.grid, _frame_array(m.frames[i]), f"storage[{i}]", m.frames[i])
            if d:
                return d
            if np.shares_memory(fld.data, st.data[i]):
                return ("aliasing/readback-shares-stored", f"storage[{i}].data shares memory with the stored array")
            for pf in self.fields:
                if fld is pf["obj"] or np.shares_memory(fld.data, pf["obj"].data):
                    return ("aliasing/readback-shares-live-field", f"storage[{i}] shares memory with live field #{pf['serial']}")
            for j in range(i):
                if got[j] is fld or np.shares_memory(fld.data, got[j].data):
                    return ("aliasing/readbacks-share", f"storage[{j}] and storage[{i}] share memory / are one object")
        self.probe("frames_compared", n)
        ns = sum(1 for f in m.frames if f["smut"])
        if ns:
            self.probe("read_after_source_mutation", ns)
        nr = sum(1 for f in m.frames if f["rmut"])
        if nr:
            self.probe("read_after_readback_mutation", nr)
        return None

    def diff_field(self, fld, kind, g, want, what, fr=None):
        """compare one field read back with the expected class / grid / data"""
        if type(fld).__name__ != CLASS_NAME[kind["cls"]]:
            return ("frames-differ/class", f"{what} is a {type(fld).__name__}, template is {CLASS_NAME[kind['cls']]}")
        try:
            if g is not None and not (fld.grid == self.grids[g]):
                return ("frames-differ/grid", f"{what} lives on {fld.grid}, template grid is {self.grids[g]}")
        except Exception as e:  # noqa: BLE001
            return ("exception/read", f"comparing grids of {what} raised {type(e).__name__}: {e}")
        a = fld.data
        if tuple(a.shape) != tuple(want.shape):
            return ("frames-differ/shape", f"{what}.data has shape {a.shape}, expected {want.shape}")
        if a.dtype == want.dtype:
            same = np.ascontiguousarray(a).tobytes() == np.ascontiguousarray(want).tobytes()
        else:
            same = bool(np.array_equal(a, want))
        if not same:
            extra = ""
            if fr is not None:
                extra = (" [source field was changed after appending]" if fr["smut"] else "") + \
                        (" [a field read back was changed]" if fr["rmut"] else "")
            return ("frames-differ/data", f"{what}.data differs from the data at append time{extra}: "
                    f"{np.asarray(a).ravel()[:6]!r} vs {np.asarray(want).ravel()[:6]!r}")
        return None

    def verify_all(self, where):
        deep = self.plan.get("verify", "deep") != "light"
        for k, ent in enumerate(self.storages):
            d = self.diff(ent["obj"], ent["m"], deep=deep)
            if d:
                self.fail(d[0], f"[storage slot {k}, {where}] {d[1]}")

    def summary(self):
        out = []
        for ent in self.storages:
            st = ent["obj"]
            h = digest_of([[fbits(t) for t in st.times], [fbits(a) for a in st.data]])[:12]
            out.append((len(st.times), ent["m"].mode, h))
        return out

    def adopt_mode(self, st, m):
        """the write mode of a storage returned by extract_* / copy / apply / from_collection is not documented"""
        obs = getattr(st, "write_mode", None)
        if obs in MODES and obs != m.mode:
            self.count("lenient", "derived_storage_mode_not_default")
            m.mode = obs
            m.switched = False

    # ---- model transitions ---------------------------------------------------------------
    def expect_start(self, m, shape):
        if m.mode == "readonly":
            return "RuntimeError"
        if m.shape is not None and tuple(shape) != tuple(m.shape):
            return "ValueError"
        return None

    def model_start(self, m, kind, g, shape, count=True):
        had = len(m.frames)
        if m.open and count:
            # the previous session never saw end_writing
            self.probe("new_session_after_aborted")
            if m.aborted:
                self.probe("sim_aborted_then_new_session")
            else:
                self.fault("session_aborted")
        replaced = m.tmpl is not None and (_kind_key(m.tmpl) != _kind_key(kind) or not self.same_grid(m.grid, g))
        if m.shape is None:
            m.shape = tuple(shape)
            if count and m.sessions > 0:
                self.probe("new_shape_after_clear_data_shape")
        m.tmpl, m.grid = kind, g
        if m.mode == "truncate_once":
            m.frames = []
            m.mode = "append"
            m.switched = True
        elif m.mode == "truncate":
            if had and count:
                self.probe("truncate_cleared_frames")
            m.frames = []
        elif count:
            if m.switched:
                self.probe("truncate_once_second_session")
                if had:
                    self.probe("truncate_once_second_session_frames_survive")
            if replaced and had:
                self.probe("template_replaced_frames_survive")
        m.open, m.aborted = True, False
        m.sessions += 1
        if count:
            self.sessions += 1
            if m.derived:
                self.probe("derived_storage_written_to")

    def expect_append(self, m, g, shape):
        """-> (verdict, allowed exception names, fault name); verdict: must_fail | must_succeed | either"""
        if m.grid is not None and not self.same_grid(m.grid, g):
            return ("must_fail", ("ValueError",) if m.shape is not None else ("ValueError", "RuntimeError"), "append_wrong_grid")
        if m.shape is None:
            return ("either", None, "append_no_shape")
        if tuple(shape) != tuple(m.shape):
            return ("must_fail", ("ValueError",), "append_wrong_shape")
        if m.mode == "readonly":
            return ("either", None, "readonly_append")
        if m.open:
            return ("must_succeed", None, None)
        return ("either", None, "append_without_session")

    def model_append(self, m, t, arr, g, src=None):
        if t is None:
            t = 0 if not m.frames else m.frames[-1]["t"] + 1
        if m.grid is None:
            m.grid = g
        if m.shape is None:
            m.shape = tuple(np.shape(arr))
        m.frames.append(_frame(t, arr, src))
        return t

    # ---- operations ------------------------------------------------------------------------
    def op_escalate(self, op):
        if self.dtype == "real":
            self.dtype = "complex"
            self.probe("dtype_escalated")
            return ("ok",)
        return ("noop",)

    def _dtype_guard(self, st, m, F, starting):
        """Mixed dtypes are only generated "upwards": a frame must fit the dtype of the template it is read through.
        (A complex frame read through a real template loses its imaginary part on the unchanged tree; the
        documentation does not say whether that combination is supported, so it is not generated.)"""
        fc = bool(np.iscomplexobj(F["obj"].data))
        tmpl = getattr(st, "_field", None)
        tmpl_c = tmpl is not None and bool(np.iscomplexobj(tmpl.data))
        has_c = any(np.dtype(fr["dt"]).kind == "c" for fr in m.frames)
        if starting:
            return (not fc) and has_c  # a real template over surviving complex frames
        return fc and tmpl is not None and not tmpl_c  # a complex frame under a real template

    def op_field(self, op):
        g, k = op["g"] % len(self.grids), op["k"] % len(self.kinds)
        kind = self.kinds[k]
        obj = _make_field(self.grids[g], kind, op["seed"], self.dtype)
        self.add_field(obj, g, kind, slot=op["seed"])
        return ("ok", g, k)

    def op_new_storage(self, op):
        import pde

        how = op["how"]
        F = self.F(op["f"])
        mode = op.get("mode")
        kw = {} if mode is None else {"write_mode": mode}
        if op.get("info") is not None:
            kw["info"] = dict(op["info"])
        m = _Model(mode or "truncate_once")
        grid = self.grids[F["g"]]
        rng = np.random.default_rng(int(op["seed"]))
        times = list(op.get("times") or [])
        try:
            st = self._construct(op, how, F, m, kw, grid, rng, times)
        except _Violation:
            raise
        except Exception as e:  # noqa: BLE001
            self.fail("exception/constructor", f"creating a storage ({how}) raised {type(e).__name__}: {e}")
        if st is None:
            return ("skipped",)
        self.add_storage(st, m, op.get("slot", 0))
        return ("ok", how, m.mode, len(m.frames))

    def _construct(self, op, how, F, m, kw, grid, rng, times):
        import pde

        if how == "empty":
            st = pde.MemoryStorage(**kw)
        elif how == "empty_tmpl":
            st = pde.MemoryStorage(field_obj=F["obj"], **kw)
            m.tmpl, m.grid, m.shape = F["kind"], F["g"], tuple(F["obj"].data.shape)
        elif how == "data":
            shape = tuple(F["obj"].data.shape)
            data = [np.ascontiguousarray(_rand_array(rng, shape, _dt_of(F["obj"]))) for _ in times]
            for t, a in zip(times, data):
                m.frames.append(_frame(t, a))
            st = pde.MemoryStorage(list(times), data, field_obj=F["obj"], **kw)
            m.tmpl, m.grid, m.shape = F["kind"], F["g"], shape
        elif how == "from_fields_none":
            kw.pop("info", None)
            st = pde.MemoryStorage.from_fields(**kw)
        elif how == "from_fields":
            if not times:
                times = [0.0]
            flds = [_make_field(grid, F["kind"], int(rng.integers(1 << 30)), _dt_of(F["obj"])) for _ in times]
            for t, f in zip(times, flds):
                m.frames.append(_frame(t, f.data))
            st = pde.MemoryStorage.from_fields(list(times), flds, **kw)
            m.tmpl, m.grid, m.shape = F["kind"], F["g"], tuple(flds[0].data.shape)
        elif how == "from_collection":
            ns = len(self.storages)

            def usable(e):
                mm = e["m"]
                return mm.tmpl is not None and mm.tmpl["cls"] != "coll" and 1 <= len(mm.frames) <= MAX_FRAMES // 2

            def partner(ea, e):
                return (usable(e) and self.same_grid(ea["m"].grid, e["m"].grid) and len(ea["m"].frames) == len(e["m"].frames)
                        and all(x == y for x, y in zip(ea["m"].times, e["m"].times))
                        and {f["dt"] for f in ea["m"].frames} == {f["dt"] for f in e["m"].frames})

            # the documented precondition (same time points) must hold: scan the pool from the named slots on
            ea = next((self.S(op["srcs"][0] + d) for d in range(ns) if usable(self.S(op["srcs"][0] + d))), None)
            if ea is None:
                self.count("skipped", "from_collection_precondition")
                return None
            eb = next((self.S(op["srcs"][1] + d) for d in range(ns)
                       if self.S(op["srcs"][1] + d) is not ea and partner(ea, self.S(op["srcs"][1] + d))), ea)
            if eb is not ea:
                self.probe("from_collection_two_storages")
            ma, mb = ea["m"], eb["m"]
            ga = self.grids[ma.grid]
            try:
                st = pde.MemoryStorage.from_collection([ea["obj"], eb["obj"]], label=op.get("label"))
            except Exception as e:  # noqa: BLE001
                self.fail("exception/from_collection", f"from_collection raised {type(e).__name__}: {e}")
            for fa, fb in zip(ma.frames, mb.frames):
                arr = np.concatenate([_flat(_frame_array(fa), ga), _flat(_frame_array(fb), ga)])
                m.frames.append(_frame(fa["t"], arr))
            kind = {"cls": "coll", "ranks": [KIND_RANK[ma.tmpl["cls"]], KIND_RANK[mb.tmpl["cls"]]],
                    "labels": [ma.tmpl.get("label"), mb.tmpl.get("label")], "label": op.get("label")}
            m.tmpl, m.grid, m.shape = kind, ma.grid, m.frames[0]["shape"]
            m.mode = "truncate_once"
            m.derived = True
            self.adopt_mode(st, m)
            self.probe("from_collection")
        else:
            raise ValueError(how)
        return st

    def op_start(self, op):
        ent, F = self.S(op["s"]), self.F(op["f"])
        st, m = ent["obj"], ent["m"]
        if self._dtype_guard(st, m, F, starting=True):
            self.count("skipped", "real_template_over_complex_frames")
            return ("skipped",)
        shape = tuple(F["obj"].data.shape)
        exp = self.expect_start(m, shape)
        info = dict(op["info"]) if op.get("info") else None
        try:
            st.start_writing(F["obj"], info=info) if info is not None or op.get("info_kw") else st.start_writing(F["obj"])
            raised = None
        except Exception as e:  # noqa: BLE001
            raised = e
        self.check_start_outcome(m, exp, raised, "start_writing")
        if raised is None:
            self.model_start(m, F["kind"], F["g"], shape)
        return ("ok" if raised is None else _exc_name(raised), m.mode)

    def check_start_outcome(self, m, exp, raised, what):
        if exp is None:
            if raised is not None:
                self.fail("exception/start_writing", f"{what} raised {type(raised).__name__}: {raised} although the mode is "
                          f"{m.mode!r} and the data shape is compatible (model shape {m.shape})")
            return
        if raised is None:
            if exp == "RuntimeError":
                self.fail("mode/readonly-start-accepted", f"{what} succeeded in write mode 'readonly'")
            self.fail("start-accepted-incompatible-shape", f"{what} accepted a field of another data shape than {m.shape}")
        if _exc_name(raised) != exp:
            self.fail("exception/start_writing-wrong-type", f"{what} raised {type(raised).__name__}: {raised}; documented is {exp}")
        self.fault("readonly_start" if exp == "RuntimeError" else "start_wrong_shape")

    def op_append(self, op):
        ent, F = self.S(op["s"]), self.F(op["f"])
        st, m = ent["obj"], ent["m"]
        if len(m.frames) >= MAX_FRAMES:
            self.count("skipped", "frame_cap")
            return ("skipped",)
        if self._dtype_guard(st, m, F, starting=False):
            self.count("skipped", "complex_frame_under_real_template")
            return ("skipped",)
        shape = tuple(F["obj"].data.shape)
        verdict, allowed, tag = self.expect_append(m, F["g"], shape)
        t = op.get("time")
        snapshot = np.array(F["obj"].data, copy=True)
        try:
            if t is None:
                st.append(F["obj"])
            else:
                st.append(F["obj"], t) if op["f"] % 2 else st.append(F["obj"], time=t)
            raised = None
        except Exception as e:  # noqa: BLE001
            raised = e
        if verdict == "must_succeed" and raised is not None:
            self.fail("exception/append", f"append of a compatible field inside a writing session raised {type(raised).__name__}: {raised}")
        if verdict == "must_fail":
            if raised is None:
                self.fail("append-accepted-incompatible", f"append accepted a field with {tag[7:].replace('_', ' ')} "
                          f"(field shape {shape} grid #{F['g']}, storage shape {m.shape} grid #{m.grid})")
            if _exc_name(raised) not in allowed:
                self.fail("exception/append-wrong-type", f"append raised {type(raised).__name__}: {raised}; documented is {allowed}")
            self.fault(tag)
        if verdict == "either":
            if raised is not None and not isinstance(raised, (RuntimeError, ValueError, TypeError)):
                self.fail("exception/append", f"append raised {type(raised).__name__}: {raised}")
            if tag == "append_no_shape":
                if raised is not None:
                    self.fault(tag)
                else:
                    self.count("lenient", "append_without_data_shape_accepted")
            elif tag == "readonly_append":
                self.count("lenient", "readonly_append_accepted" if raised is None else "readonly_append_refused")
            else:
                self.count("lenient", "append_without_session_accepted" if raised is None else "append_without_session_refused")
        if raised is None:
            if not m.open:
                self.probe("append_without_session")
            if t is None:
                self.probe("append_implicit_time")
            elif m.frames and not (t > m.frames[-1]["t"]):
                self.probe("append_nonincreasing_time")
            t_model = t
            if t is None:
                # the value of an implicit time is not documented: the model adopts what the storage chose
                try:
                    t_model = st.times[-1] if len(st.times) == len(m.frames) + 1 else None
                except Exception:  # noqa: BLE001
                    t_model = None
                rule = 0 if not m.frames else m.frames[-1]["t"] + 1
                if t_model is None:
                    t_model = rule  # the comparison below reports the wrong number of frames
                elif not (t_model == rule):
                    self.count("lenient", "implicit_time_not_last_plus_one")
            self.model_append(m, t_model, snapshot, F["g"], src=F["serial"])
        return ("ok" if raised is None else _exc_name(raised), verdict)

    def op_end(self, op):
        ent = self.S(op["s"])
        try:
            ent["obj"].end_writing()
        except Exception as e:  # noqa: BLE001
            self.fail("exception/end_writing", f"end_writing raised {type(e).__name__}: {e}")
        ent["m"].open = False
        ent["m"].aborted = False
        return ("ok",)

    def op_clear(self, op):
        ent = self.S(op["s"])
        flag = bool(op.get("shape"))
        try:
            if flag:
                ent["obj"].clear(clear_data_shape=True) if op["s"] % 2 else ent["obj"].clear(True)
            else:
                ent["obj"].clear()
        except Exception as e:  # noqa: BLE001
            self.fail("exception/clear", f"clear raised {type(e).__name__}: {e}")
        ent["m"].frames = []
        if flag:
            ent["m"].shape = None
        return ("ok", flag)

    def op_mode(self, op):
        ent = self.S(op["s"])
        ent["obj"].write_mode = op["mode"]
        ent["m"].mode = op["mode"]
        if op["mode"] != "append":
            ent["m"].switched = False
        return ("ok", op["mode"])

    def op_mutate(self, op):
        F = self.F(op["f"])
        obj = F["obj"]
        rng = np.random.default_rng(int(op["seed"]))
        how = op["how"]
        if how == "sub" and F["kind"]["cls"] == "coll":
            k = int(op["seed"]) % len(F["kind"]["ranks"])
            obj[k].data[...] = _rand_array(rng, obj[k].data.shape, _dt_of(obj[k]))
        elif how == "scale":
            obj.data *= 1.5
            obj.data += 0.25
        elif how == "fill":
            obj.data = 7.0
        else:
            obj.data[...] = _rand_array(rng, obj.data.shape, _dt_of(obj))
        for ent in self.storages:
            for fr in ent["m"].frames:
                if fr["src"] == F["serial"]:
                    fr["smut"] = True
        return ("ok", how)

    def _scribble(self, fld):
        fld.data[...] = -12345.0
        fld.data *= 2

    def op_read(self, op):
        ent = self.S(op["s"])
        st, m = ent["obj"], ent["m"]
        if m.tmpl is None:
            self.count("skipped", "read_without_template")
            return ("skipped",)
        n = len(m.frames)
        how = op["how"]
        pairs = []  # (field read, model frame index)
        try:
            if how in ("index", "neg", "oob"):
                if how == "oob" or n == 0:
                    i = n + op["i"] % 3 if op["i"] % 2 else -n - 1 - op["i"] % 3
                    try:
                        st[i]
                    except IndexError:
                        return ("IndexError",)
                    self.fail("read-out-of-range-accepted", f"storage[{i}] did not raise IndexError with {n} frames stored")
                i = op["i"] % n
                if how == "neg":
                    pairs.append((st[i - n], i))
                else:
                    pairs.append((st[i], i))
            elif how == "last":
                k = 1 + op["i"] % 2  # a fixed negative index, whatever the current length is
                if n >= k:
                    pairs.append((st[-k], n - k))
                    self.probe("read_fixed_negative_index")
            elif how == "slice":
                sl = slice(*op["slice"])
                got = st[sl]
                idx = list(range(n))[sl]
                if not isinstance(got, list) or len(got) != len(idx):
                    self.fail("frames-differ/slice", f"storage[{sl}] returned {len(got) if isinstance(got, list) else type(got).__name__}, "
                              f"expected a list of {len(idx)} fields")
                pairs.extend(zip(got, idx))
            elif how == "iter":
                got = list(st)
                if len(got) != n:
                    self.fail("frames-differ/iter", f"iteration yielded {len(got)} fields, expected {n}")
                pairs.extend(zip(got, range(n)))
            elif how == "items":
                got = list(st.items())
                if len(got) != n:
                    self.fail("frames-differ/items", f"items() yielded {len(got)} pairs, expected {n}")
                for i, (t, f) in enumerate(got):
                    if not (t == m.frames[i]["t"]):
                        self.fail("frames-differ/items", f"items() pair {i} has time {t!r}, expected {m.frames[i]['t']!r}")
                    pairs.append((f, i))
            else:
                raise ValueError(how)
        except _Violation:
            raise
        except Exception as e:  # noqa: BLE001
            self.fail("exception/read", f"read '{how}' raised {type(e).__name__}: {e}")
        for fld, i in pairs:
            d = self.diff_field(fld, m.tmpl, m.grid, _frame_array(m.frames[i]), f"read '{how}' frame {i}", m.frames[i])
            if d:
                self.fail(*d)
            if np.shares_memory(fld.data, st.data[i]):
                self.fail("aliasing/readback-shares-stored", f"read '{how}' frame {i} shares memory with the stored array")
        if op.get("mutate"):
            for fld, i in pairs:
                self._scribble(fld)
                m.frames[i]["rmut"] = True
        elif op.get("keep") and pairs:
            self.add_field(pairs[0][0], m.grid, m.tmpl, slot=op["i"])
        return ("ok", how, len(pairs))

    # ---- derived storages ------------------------------------------------------------------
    def _coll_index(self, m, op):
        """(argument handed to py-pde, index the documentation says it selects)"""
        nf = len(m.tmpl["ranks"])
        k = op["idx"] % nf
        labels = m.tmpl["labels"]
        if op.get("by_label") and labels[k] is not None:
            return labels[k], labels.index(labels[k])
        return k, k

    def op_extract_field(self, op):
        ent = self.S(op["s"])
        st, m = ent["obj"], ent["m"]
        if m.tmpl is None:
            self.count("skipped", "extract_field_without_template")
            return ("skipped",)
        if m.tmpl["cls"] != "coll":
            try:
                st.extract_field(op["idx"] % 2)
            except TypeError:
                return ("TypeError",)
            except Exception as e:  # noqa: BLE001
                self.fail("exception/extract_field-wrong-type", f"extract_field on a non-collection raised {type(e).__name__}: {e}")
            self.fail("extract_field-accepted-non-collection", "extract_field worked on a storage of a single field")
        arg, k = self._coll_index(m, op)
        label = op.get("label")
        try:
            ex = st.extract_field(arg, label=label) if label is not None else st.extract_field(arg)
        except Exception as e:  # noqa: BLE001
            self.fail("exception/extract_field", f"extract_field({arg!r}) raised {type(e).__name__}: {e}")
        grid = self.grids[m.grid]
        sub = dict(_sub_kind(m.tmpl, k))
        if label is not None:
            sub["label"] = label
        em = _Model("truncate_once")
        em.derived = True
        em.tmpl, em.grid = sub, m.grid
        em.shape = _kind_shape(sub, grid)
        for fr in m.frames:
            em.frames.append(_frame(fr["t"], _split(_frame_array(fr), m.tmpl, grid)[k]))
        d = self.diff(ex, em)
        if d:
            self.fail("derived/extract_field/" + d[0], f"extract_field({arg!r}) -> {d[1]}")
        for i in range(len(em.frames)):
            if np.shares_memory(ex.data[i], st.data[i]):
                self.fail("derived/extract_field/shares-memory", "extract_field is documented to copy the data but frame "
                          f"{i} shares memory with the source storage")
            lab = ex[i].label
            if lab != sub["label"]:
                self.fail("derived/extract_field/label", f"extracted field has label {lab!r}, expected {sub['label']!r}")
        if k >= 1 and m.frames:
            self.probe("extract_field_second_or_later")
        if isinstance(arg, str) and m.frames:
            self.probe("extract_field_by_label")
        if op.get("keep"):
            self.adopt_mode(ex, em)
            self.add_storage(ex, em, op.get("slot", 0))
        return ("ok", k, len(em.frames))

    def _resolve_t(self, times, p):
        """p even -> the time of frame p/2 (a boundary), p odd -> between two frames / outside"""
        n = len(times)
        if n == 0:
            return float(p)
        if p < 0:
            return times[0] - 0.5
        j = p // 2
        if p % 2 == 0:
            return times[min(j, n - 1)] if j < n else times[-1] + 1.5
        if j + 1 < n:
            return 0.5 * (times[j] + times[j + 1])
        return times[-1] + 0.5

    def op_extract_time(self, op):
        ent = self.S(op["s"])
        st, m = ent["obj"], ent["m"]
        times = m.times
        if any(times[i] > times[i + 1] for i in range(len(times) - 1)):
            self.count("skipped", "extract_time_unsorted")
            return ("skipped",)
        how = op["how"]
        if how == "none":
            arg, lo, hi = None, None, None
        elif how == "scalar":
            hi = self._resolve_t(times, op["b"])
            arg, lo = hi, None
        else:
            lo, hi = self._resolve_t(times, op["a"]), self._resolve_t(times, op["b"])
            arg = (lo, hi) if op["a"] % 3 else [lo, hi]
        try:
            ex = st.extract_time_range(arg) if arg is not None or op["a"] % 2 else st.extract_time_range()
            raised = None
        except Exception as e:  # noqa: BLE001
            raised = e
        if raised is not None:
            if not times and isinstance(raised, IndexError):
                self.count("lenient", "extract_time_range_empty_raised")
                return ("IndexError",)
            self.fail("exception/extract_time_range", f"extract_time_range({arg!r}) raised {type(raised).__name__}: {raised}")
        # candidates: frames strictly inside are in, frames strictly outside are out, frames on a bound may be either
        n = len(times)
        lo_in = [i for i in range(n) if lo is None or times[i] >= lo]
        lo_ex = [i for i in range(n) if lo is None or times[i] > lo]
        cands = []
        for los in (lo_in, lo_ex):
            for incl in (True, False):
                sel = [i for i in los if hi is None or (times[i] <= hi if incl else times[i] < hi)]
                if sel not in cands:
                    cands.append(sel)
        got_times = list(ex.times)
        match = None
        for sel in cands:
            if len(sel) == len(got_times) and all(times[i] == t for i, t in zip(sel, got_times)):
                match = sel
                break
        if match is None:
            self.fail("derived/extract_time_range/times", f"extract_time_range({arg!r}) of times {times!r} returned {got_times!r}")
        if len(cands) > 1:
            self.probe("extract_time_range_boundary")
        if 0 < len(match) < n:
            self.probe("extract_time_range_proper_subset")
        em = _Model("truncate_once")
        em.derived = True
        em.tmpl, em.grid = m.tmpl, m.grid
        em.frames = [dict(m.frames[i]) for i in match]
        if m.tmpl is not None:
            em.shape = _kind_shape(m.tmpl, self.grids[m.grid])
        elif em.frames:
            em.shape = em.frames[0]["shape"]
        d = self.diff(ex, em)
        if d:
            self.fail("derived/extract_time_range/" + d[0], f"extract_time_range({arg!r}) -> {d[1]}")
        if op.get("keep"):
            self.adopt_mode(ex, em)
            self.add_storage(ex, em, op.get("slot", 0))
        return ("ok", len(match))

    def op_view(self, op):
        ent = self.S(op["s"])
        st, m = ent["obj"], ent["m"]
        if m.tmpl is None:
            self.count("skipped", "view_without_template")
            return ("skipped",)
        if m.tmpl["cls"] != "coll":
            try:
                st.view_field(0)
            except RuntimeError:
                return ("RuntimeError",)
            except Exception as e:  # noqa: BLE001
                self.fail("exception/view_field-wrong-type", f"view_field on a non-collection raised {type(e).__name__}: {e}")
            self.fail("view_field-accepted-non-collection", "view_field worked on a storage of a single field")
        arg, k = self._coll_index(m, op)
        grid = self.grids[m.grid]
        sub = _sub_kind(m.tmpl, k)
        n = len(m.frames)
        try:
            view = st.view_field(arg)
            if len(view) != n or any(not (a == b) for a, b in zip(list(view.times), m.times)) or len(list(view.times)) != n:
                self.fail("derived/view_field/times", f"view has len {len(view)} times {list(view.times)!r}, expected {m.times!r}")
            singles = [view[i] for i in range(n)]
            iterated = list(view)
            items = list(view.items())
        except _Violation:
            raise
        except Exception as e:  # noqa: BLE001
            self.fail("exception/view_field", f"view_field({arg!r}) raised {type(e).__name__}: {e}")
        if len(iterated) != n or len(items) != n:
            self.fail("derived/view_field/len", f"view iterates {len(iterated)} fields / {len(items)} items, expected {n}")
        for i, fr in enumerate(m.frames):
            want = _split(_frame_array(fr), m.tmpl, grid)[k]
            for what, fld in (("view[i]", singles[i]), ("iter(view)", iterated[i]), ("view.items()", items[i][1])):
                d = self.diff_field(fld, sub, m.grid, want, f"{what} frame {i} field {k}")
                if d:
                    self.fail("derived/view_field/" + d[0], d[1])
            if not (items[i][0] == fr["t"]):
                self.fail("derived/view_field/times", f"view.items() pair {i} has time {items[i][0]!r}, expected {fr['t']!r}")
        if n:
            self.probe("view_field_frames", n)
        return ("ok", k, n)

    def _pick_out(self, op, ent):
        """the storage entry used as `out=` (never the source itself)"""
        if op.get("out") is None or len(self.storages) < 2:
            return None
        if self.dtype != self.plan["dtype"]:
            return None  # after a dtype escalation derived storages are always fresh ones (see _dtype_guard)
        i = self.storages.index(ent)
        j = (i + 1 + int(op["out"]) % (len(self.storages) - 1)) % len(self.storages)
        return self.storages[j]

    def _apply_func(self, name, k_raise, kind, grid, calls):
        """-> (python callable, model function (array, t, i) -> array | raises _Boom, result kind)"""
        first = name == "first" and kind["cls"] == "coll"
        res_kind = _sub_kind(kind, 0) if first else kind

        def model(arr, t, i):
            if name == "raise" and i == k_raise:
                raise _Boom
            if name == "scale2":
                return arr * 2
            if name == "addt":
                return arr + t
            if first:
                return _split(arr, kind, grid)[0]
            return arr

        def bump():
            calls.append(len(calls))
            return len(calls) - 1

        if name == "scale2":
            def func(field):
                bump()
                out = field.copy()
                out.data = field.data * 2
                return out
        elif name == "addt":
            def func(field, t):
                bump()
                out = field.copy()
                out.data = field.data + t
                return out
        elif name == "first":
            def func(field):
                bump()
                return field[0] if first else field
        elif name == "mut":
            def func(field):
                bump()
                out = field.copy()
                field.data[...] = -7.0
                return out
        elif name == "raise":
            def func(field):
                if bump() == k_raise:
                    raise _Boom("user function fails at frame %d" % k_raise)
                return field
        else:
            def func(field):
                bump()
                return field
        return func, model, res_kind

    def op_copy_apply(self, op):
        import pde

        ent = self.S(op["s"])
        st, m = ent["obj"], ent["m"]
        is_copy = op["op"] == "copy"
        if m.tmpl is None and m.frames:
            self.count("skipped", "apply_without_template")
            return ("skipped",)
        out_ent = self._pick_out(op, ent)
        n = len(m.frames)
        if out_ent is not None and len(out_ent["m"].frames) + n > MAX_FRAMES:
            out_ent = None
        name = "ident" if is_copy else op["func"]
        k_raise = (op.get("k", 0) % n) if n else 0
        calls = []
        grid = self.grids[m.grid] if m.grid is not None else None
        kind = m.tmpl
        if n:
            func, model, res_kind = self._apply_func(name, k_raise, kind, grid, calls)
        else:
            func, model, res_kind = (lambda field: field), None, kind
        # ---- what the documentation promises, played on a copy of the output's model
        if out_ent is not None:
            om = out_ent["m"].clone()
        else:
            om = _Model("truncate_once")
        untouched = om.clone()
        expected_exc = None
        started = False
        for i, fr in enumerate(m.frames):
            try:
                arr = model(_frame_array(fr), fr["t"], i)
            except _Boom:
                expected_exc = "_Boom"
                break
            if not started:
                if out_ent is None:
                    om.tmpl, om.grid, om.shape = res_kind, m.grid, tuple(arr.shape)
                exp = self.expect_start(om, arr.shape)
                if exp is not None:
                    expected_exc = exp
                    break
                self.model_start(om, res_kind, m.grid, arr.shape, count=out_ent is not None)
                started = True
            self.model_append(om, fr["t"], arr, m.grid)
        else:
            if started:
                om.open = False
        # ---- the real call
        try:
            if is_copy:
                res = st.copy() if out_ent is None else st.copy(out=out_ent["obj"])
            else:
                res = st.apply(func) if out_ent is None else st.apply(func, out=out_ent["obj"])
            raised = None
        except Exception as e:  # noqa: BLE001
            raised = e
            res = None
        what = f"{'copy' if is_copy else 'apply'}({'' if is_copy else name}{', out=<storage>' if out_ent is not None else ''})"
        if expected_exc is None:
            if raised is not None:
                self.fail("exception/" + ("copy" if is_copy else "apply"), f"{what} raised {type(raised).__name__}: {raised}")
            if not isinstance(res, pde.storage.base.StorageBase):
                self.fail("derived/apply/result", f"{what} returned {type(res).__name__}")
            om.derived = True
            d = self.diff(res, om)
            if d:
                self.fail(f"derived/{'copy' if is_copy else 'apply'}/" + d[0], f"{what} -> {d[1]}")
            if out_ent is not None:
                if res is not out_ent["obj"]:
                    d2 = self.diff(out_ent["obj"], om)
                    if d2:
                        self.fail(f"derived/{'copy' if is_copy else 'apply'}/out-not-filled/" + d2[0], f"{what}: out holds -> {d2[1]}")
                out_ent["m"] = om
                if n:
                    self.probe("copy_into_existing" if is_copy else "apply_into_existing")
            else:
                for i in range(min(n, len(res.data))):
                    if np.shares_memory(res.data[i], st.data[i]):
                        self.fail("derived/copy/shares-memory", f"{what}: frame {i} of the new storage shares memory with the source")
                if op.get("keep"):
                    self.adopt_mode(res, om)
                    self.add_storage(res, om, op.get("slot", 0))
            return ("ok", len(om.frames))
        # ---- an exception is expected
        if raised is None:
            if expected_exc == "RuntimeError":
                self.fail("mode/readonly-start-accepted", f"{what} wrote into a storage in write mode 'readonly'")
            if expected_exc == "ValueError":
                self.fail("start-accepted-incompatible-shape", f"{what} wrote fields of another data shape into out")
            self.fail("derived/apply/exception-swallowed", f"{what}: the exception of the user function did not propagate")
        if expected_exc == "_Boom":
            if not isinstance(raised, _Boom):
                self.fail("exception/apply", f"{what} raised {type(raised).__name__}: {raised} instead of the user function's exception")
            self.fault("apply_raises")
            if out_ent is not None:
                # both "nothing written" and "frames so far written" are accepted
                if self.diff(out_ent["obj"], om, deep=False) is None:
                    out_ent["m"] = om
                    if started:
                        self.probe("apply_partial_output")
                        om.aborted = False
                elif self.diff(out_ent["obj"], untouched, deep=False) is None:
                    self.count("lenient", "apply_aborted_output_untouched")
                else:
                    d = self.diff(out_ent["obj"], om) or ("?", "?")
                    self.fail("derived/apply/aborted-output/" + d[0], f"{what}: after the user function raised at frame {k_raise} out "
                              f"holds neither its old content nor the frames written so far: {d[1]}")
        else:
            if _exc_name(raised) != expected_exc:
                self.fail("exception/start_writing-wrong-type", f"{what} raised {type(raised).__name__}: {raised}; documented is {expected_exc}")
            self.fault("readonly_start" if expected_exc == "RuntimeError" else "start_wrong_shape")
        return (_exc_name(raised),)

    # ---- the storage as tracker of a real run ---------------------------------------------
    def _make_interrupt(self, spec):
        import importlib

        I = importlib.import_module("pde.trackers.interrupts")
        if spec["type"] == "const":
            return I.ConstantInterrupts(spec["dt"])
        if spec["type"] == "fixed":
            return I.FixedInterrupts(np.array(list(spec["times"]), dtype=float))
        v = spec["dt"]
        return int(v) if float(v).is_integer() else v

    def op_sim(self, op):
        import pde
        from pde.pdes.base import PDEBase

        ent, F = self.S(op["s"]), self.F(op["f"])
        st, m = ent["obj"], ent["m"]
        if len(m.frames) + op["n"] + 3 > MAX_FRAMES and m.mode in ("append", "readonly"):
            self.count("skipped", "frame_cap")
            return ("skipped",)
        if self._dtype_guard(st, m, F, starting=True):
            self.count("skipped", "real_template_over_complex_frames")
            return ("skipped",)
        state = F["obj"]
        a = float(op["a"])
        if op["eq"] == "diffusion" and F["kind"]["cls"] == "scalar" and self.plan["grids"][F["g"]]["kind"] in ("unit", "cart"):
            eq = pde.DiffusionPDE(diffusivity=0.1)
        else:
            class LinearEq(PDEBase):
                """du/dt = a*u on any field class: client code of the run loop"""

                def evolution_rate(self, state, t=0):
                    res = state.copy()
                    res.data = a * state.data
                    return res

                def make_evolution_rate(self, state, backend):
                    def rhs(data, t):
                        return a * data

                    return rhs

            eq = LinearEq()
        rec = []  # (t, data at the moment the storage tracker was due)
        tcalls = []

        def record(field, t):
            rec.append((t, np.array(field.data, copy=True)))

        recorder = pde.CallbackTracker(record, interrupts=self._make_interrupt(op["interrupt"]))
        tr = op.get("transform")
        if tr == "one":
            def transformation(field):
                tcalls.append(1)
                return field
        elif tr == "two":
            def transformation(field, t):
                tcalls.append(1)
                return field
        elif tr == "copy":
            def transformation(field, t):
                tcalls.append(1)
                return field.copy()
        else:
            transformation = None
        if transformation is None:
            stracker = st.tracker(interrupts=self._make_interrupt(op["interrupt"])) if op["n"] % 2 else \
                st.tracker(self._make_interrupt(op["interrupt"]))
        else:
            stracker = st.tracker(interrupts=self._make_interrupt(op["interrupt"]), transformation=transformation)
        trackers = [recorder, stracker]  # adjacent: nothing can happen between the two
        stop = op.get("stop")
        fired = []
        if stop:
            ncall = [0]

            def raiser(field, t):
                k = ncall[0]
                ncall[0] += 1
                if k == stop["at"]:
                    fired.append(stop["kind"])
                    if stop["kind"] == "StopIteration":
                        raise StopIteration("stop requested by another tracker")
                    raise _Abort("another tracker fails")

            rt = pde.CallbackTracker(raiser, interrupts=self._make_interrupt(stop["interrupt"]))
            trackers = [rt, *trackers] if stop["pos"] == "before" else [*trackers, rt]
        t0 = op["t0"]
        t1 = t0 + op["n"] * op["dt"]
        t_range = t1 if (op.get("scalar_range") and t0 == 0) else (t0, t1)
        kw = {"adaptive": True, "tolerance": 1e-3} if op["adaptive"] else {"adaptive": False}
        ends = [0]
        o_end = st.end_writing

        def end_writing():
            ends[0] += 1
            return o_end()

        shape = tuple(state.data.shape)
        exp = self.expect_start(m, shape)
        before = np.array(state.data, copy=True)
        clk = simclock.SimClock({"profile": "steady", "seed": op.get("clock_seed", 0), "max_reads": 200000})
        simclock.install(clk)
        st.end_writing = end_writing
        try:
            eq.solve(state, t_range, dt=op["dt"], solver=op["solver"], backend="numpy", tracker=trackers, **kw)
            raised = None
        except Exception as e:  # noqa: BLE001
            raised = e
        finally:
            simclock.uninstall()
            try:
                del st.end_writing
            except AttributeError:
                pass
        if before.tobytes() != np.ascontiguousarray(state.data).tobytes():
            raise AssertionError("harness: eq.solve changed the caller's initial state")
        self.probe("sim_runs")
        if exp is not None:
            self.check_start_outcome(m, exp, raised, "StorageTracker.initialize -> start_writing")
            return (_exc_name(raised), 0)
        if raised is not None and not isinstance(raised, _Abort):
            if _through_storage(raised):
                self.fail("exception/tracker-run", f"the storage raised inside a run: {type(raised).__name__}: {raised}")
            raise raised  # the run itself broke: harness error
        if transformation is not None and len(tcalls) != len(rec) + 1:
            raise AssertionError(f"harness: recorder saw {len(rec)} rounds, the storage tracker's transformation {len(tcalls)} calls")
        self.model_start(m, F["kind"], F["g"], shape)
        for j, (t, arr) in enumerate(rec):
            self.model_append(m, t, arr, F["g"])
            if j + 1 < len(rec):
                m.frames[-1]["smut"] = True  # the run keeps changing the state it handed over
        if op["adaptive"]:
            self.probe("sim_adaptive")
        if raised is not None:
            self.fault("sim_aborted_by_other_tracker")
            if ends[0]:
                self.count("lenient", "end_writing_called_after_abort")
                m.open = False
            else:
                self.fault("session_aborted")
                m.aborted = True
        else:
            if "StopIteration" in fired:
                self.probe("sim_stopped_by_StopIteration")
            if ends[0]:
                m.open = False
        return ("ok" if raised is None else "aborted", len(rec), ends[0])

    # ---- driver ------------------------------------------------------------------------------
    def run(self):
        import pde

        plan = self.plan
        self.log.add("plan", digest_of(plan))
        # harness sanity: the three grids are what the generator meant them to be
        f0 = _make_field(self.grids[0], self.kinds[0], plan["f0_seed"], self.dtype)
        self.add_field(f0, 0, self.kinds[0])
        kw = {} if plan.get("first_mode") is None else {"write_mode": plan["first_mode"]}
        self.add_storage(pde.MemoryStorage(**kw), _Model(plan.get("first_mode") or "truncate_once"))
        table = {"escalate": self.op_escalate, "field": self.op_field, "new_storage": self.op_new_storage, "start": self.op_start, "append": self.op_append,
                 "end": self.op_end, "clear": self.op_clear, "mode": self.op_mode, "mutate": self.op_mutate, "read": self.op_read,
                 "extract_field": self.op_extract_field, "extract_time": self.op_extract_time, "view": self.op_view,
                 "copy": self.op_copy_apply, "apply": self.op_copy_apply, "sim": self.op_sim}
        self.verify_all("initially")
        for i, op in enumerate(plan["ops"]):
            self.cur = i
            self.count("ops", op["op"])
            outcome = table[op["op"]](op)
            self.verify_all("after the operation")
            self.log.add(i, op["op"], outcome, self.summary())


def canon_op(op):
    keys = sorted(k for k in op if k not in ("seed", "clock_seed", "slot"))
    return "{" + ", ".join(f"{k}={op[k]!r}" for k in keys) + "}"


def execute(plan: dict) -> dict:
    import pde  # noqa: F401

    ex = _Exec(plan)
    viol = None
    try:
        ex.run()
    except _Violation as v:
        viol = violation(v.klass, v.detail)
        ex.log.add("violation", v.klass, ex.cur)
    fired = sum(v for k, v in ex.stats["faults"].items() if k.startswith("fired_"))
    ex.log.add("verdict", viol["class"] if viol else None)
    return {"violation": viol, "digest": ex.log.digest(), "stats": ex.stats,
            "nontrivial": bool(fired or ex.sessions >= 2),
            "sig": digest_of([plan["grids"], plan["kinds"], plan["dtype"], plan.get("first_mode"), plan["ops"]]),
            "sim_time": 0.0, "sched_steps": len(plan["ops"]), "events_head": ex.log.head[:60]}


# ======================================================================================
# minimisation
# ======================================================================================


def shrink_lists(plan):
    return ["ops"]


def simplify(plan):
    def variant(fn):
        p = copy.deepcopy(plan)
        fn(p)
        return p

    if plan["dtype"] != "real":
        yield variant(lambda p: p.update(dtype="real"))
    if plan.get("verify") == "deep":
        yield variant(lambda p: p.update(verify="light"))
    small = [{"kind": "unit", "shape": [2], "periodic": [False]}, {"kind": "unit", "shape": [2], "periodic": [True]},
             {"kind": "unit", "shape": [3], "periodic": [False]}]
    if plan["grids"] != small:
        yield variant(lambda p: p.update(grids=copy.deepcopy(small)))
        for gi, g in enumerate(plan["grids"]):
            for ax, n in enumerate(g["shape"]):
                if n > 2 and not (gi == 2 and n == 3):
                    yield variant(lambda p, gi=gi, ax=ax: p["grids"][gi]["shape"].__setitem__(ax, p["grids"][gi]["shape"][ax] - 1))
    scal = {"cls": "scalar", "label": None}
    for ki, k in enumerate(plan["kinds"]):
        if k != scal:
            yield variant(lambda p, ki=ki: p["kinds"].__setitem__(ki, dict(scal)))
            if k["cls"] == "coll" and len(k["ranks"]) > 2:
                yield variant(lambda p, ki=ki: p["kinds"][ki].update(ranks=p["kinds"][ki]["ranks"][:2], labels=p["kinds"][ki]["labels"][:2]))
            if k["cls"] == "coll" and any(k["ranks"]):
                yield variant(lambda p, ki=ki: p["kinds"][ki].update(ranks=[0] * len(p["kinds"][ki]["ranks"])))
    if plan.get("first_mode") is not None:
        yield variant(lambda p: p.update(first_mode=None))
    for i, op in enumerate(plan["ops"]):
        kind = op["op"]
        if kind == "new_storage":
            if len(op.get("times") or []) > 1:
                yield variant(lambda p, i=i: p["ops"][i].update(times=p["ops"][i]["times"][:len(p["ops"][i]["times"]) // 2]))
                yield variant(lambda p, i=i: p["ops"][i].update(times=p["ops"][i]["times"][:-1]))
            if op.get("info") is not None:
                yield variant(lambda p, i=i: p["ops"][i].update(info=None))
            if op["how"] not in ("empty", "data"):
                yield variant(lambda p, i=i: p["ops"][i].update(how="data"))
        elif kind == "sim":
            if op["n"] > 1:
                yield variant(lambda p, i=i: p["ops"][i].update(n=p["ops"][i]["n"] // 2))
                yield variant(lambda p, i=i: p["ops"][i].update(n=p["ops"][i]["n"] - 1))
            if op["adaptive"]:
                yield variant(lambda p, i=i: p["ops"][i].update(adaptive=False))
            if op.get("stop"):
                yield variant(lambda p, i=i: p["ops"][i].update(stop=None))
            if op.get("transform"):
                yield variant(lambda p, i=i: p["ops"][i].update(transform=None))
            if op["eq"] != "linear":
                yield variant(lambda p, i=i: p["ops"][i].update(eq="linear"))
            if op["solver"] != "euler":
                yield variant(lambda p, i=i: p["ops"][i].update(solver="euler"))
            if op["interrupt"] != {"type": "const", "dt": op["dt"]}:
                yield variant(lambda p, i=i: p["ops"][i].update(interrupt={"type": "const", "dt": p["ops"][i]["dt"]}))
            if op["t0"] != 0:
                yield variant(lambda p, i=i: p["ops"][i].update(t0=0))
        elif kind == "append":
            if op.get("time") is not None:
                yield variant(lambda p, i=i: p["ops"][i].update(time=None))
        elif kind == "start":
            if op.get("info") is not None:
                yield variant(lambda p, i=i: p["ops"][i].update(info=None))
        elif kind == "read":
            if op.get("keep"):
                yield variant(lambda p, i=i: p["ops"][i].update(keep=False))
            if op["how"] != "index":
                yield variant(lambda p, i=i: p["ops"][i].update(how="index"))
        elif kind in ("copy", "apply", "extract_field", "extract_time"):
            if op.get("keep"):
                yield variant(lambda p, i=i: p["ops"][i].update(keep=False))
            if kind == "apply" and op["func"] not in ("ident", "raise"):
                yield variant(lambda p, i=i: p["ops"][i].update(func="ident"))
            if kind in ("copy", "apply") and op.get("out") is not None:
                yield variant(lambda p, i=i: p["ops"][i].update(out=None))
        for key in ("s", "f"):
            if op.get(key):
                yield variant(lambda p, i=i, key=key: p["ops"][i].update({key: 0}))
