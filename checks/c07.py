"""C07 - observation does not perturb a simulation; step and time accounting is exact.
Engine: controller-sim (sim/controller_sim.py); DESIGN.md 4.3."""

from sim import controller_sim as cs

PROPERTY = "C07"
ISOLATE = True
TIERS = {
    "quick": {"runs": 6000, "budget_s": 150, "timeout_s": 120, "chunk": 16, "det_sample": 48, "det_runs": 300},
    "thorough": {"runs": 120000, "budget_s": 1500, "timeout_s": 120, "chunk": 16, "det_sample": 64, "det_runs": 1000},
}
RULE = ("seeded plans: (fixed-step solver, backend, dt, t_start, range formed as t_start+N*dt / decimal literal / non-integer "
        "length, equation, 0-5 real read-only tracker objects each with a constant/fixed/logarithmic/geometric/realtime "
        "interrupt, simulated wall-clock profile); each plan is run without trackers, with trackers and against the "
        "single-step reference trajectory; non-trivial = at least one tracker whose interval is not an integer multiple "
        "of dt or whose schedule is not constant; distinct = distinct (solver, backend, trackers, range, dt, t_start)")
PROBES = ["probes/noncommensurate_interval", "probes/round_with_2plus_trackers", "probes/forced_single_step",
          "probes/range_not_whole", "probes/nonautonomous", "probes/tracker_auto",
          "faults/clock_zero_advance_reads", "faults/clock_jumps", "faults/clock_slow_reads"]
COMPONENTS = {
    "real": ["pde.solvers.controller.Controller", "pde.trackers.base.TrackerCollection", "all tracker classes used",
             "pde.trackers.interrupts.*", "pde.storage.memory.MemoryStorage + StorageTracker",
             "solvers euler/runge-kutta/implicit/crank-nicolson/adams-bashforth (+adaptive euler/runge-kutta)",
             "backends numpy and numba (python mode: same source executed by CPython)"],
    "stub": ["wall clock (SimClock replaces module `time` in pde.trackers.interrupts, pde.trackers.trackers, "
             "pde.solvers.controller and Controller._get_current_time)", "tqdm output (TQDM_DISABLE=1)",
             "LLVM code generation (NUMBA_DISABLE_JIT=1)"],
    "client_code": ["LinearEq du/dt=a*u+b*cos(w*t) on 1-3 cells", "DiffusionPDE on 4-6 cells"],
}
ASSUMPTIONS = [
    "max(|t_start|,|t_end|)/dt <= ~1e5 so that accumulated round-off of simulation time stays far below 1e-6*dt",
    "N <= 2000 steps, <= 5 trackers, tiny grids (the run loop does not depend on the grid size)",
    "numba backend exercised in python mode (NUMBA_DISABLE_JIT=1); compiled mode only in the JIT sample",
    "read-only trackers only (threshold trackers are configured so that they cannot fire); stopping is C08",
    "non-autonomous equations are compared with a tolerance derived from the round-off of accumulated time; autonomous "
    "ones bit for bit",
]


def prepare():
    from sim.prewarm import prewarm_pde

    prewarm_pde()


def gen_plan(rng, tier, idx):
    return cs.gen_plan(rng, tier, idx, PROPERTY)


def execute(plan):
    return cs.execute(plan)


def shrink_lists(plan):
    return ["faults", "trackers"]


def simplify(plan):
    yield from cs.simplify(plan)


def post_batch(tier, seed, agg):
    """Thorough tier: a sample of the same plans with real numba compilation of the stepping loops."""
    import os

    if tier != "thorough" and not os.environ.get("VERIF_JIT"):
        return None
    from sim.core import jit_sample
    import sys

    return jit_sample(sys.modules[__name__], seed, runs=64, budget_s=400, timeout_s=600)
