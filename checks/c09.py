"""C09 - interrupt schedules are strictly increasing and stay on their lattice.
Engine: timer-sim (this file); DESIGN.md 4.5.

A plan is one interrupt specification, a start time t0 and a list of *moves*.  Every move
is interpreted relative to the state of the live object it addresses (last query t, last
answer a, current period P) and yields the next query, clamped so that the query sequence
of every object is non-decreasing and stays inside the stated domain.  The oracle is a
reference model per class written from the documented semantics (class docstrings and the
statement of C09), not from the implementation:

  (a) answer >= query - round-off          (b) answer > previous answer (strictly)
  (c) membership in the defining set       (d) no needless skip: the answer is the first
                                               member that satisfies (a) and (b)

Where the implementation has to decide within round-off of a threshold (query within a
few ulp of a scheduled time) both outcomes are accepted.
"""

from __future__ import annotations

import copy as _copy
import decimal
import importlib
import math

from sim.core import EventLog, digest_of, fbits, violation

PROPERTY = "C09"
ISOLATE = False  # interrupt objects are plain Python objects without process-wide state
TIERS = {
    # ~1.4 ms per history (measured): 150000 runs = 13 s of 16 idle cores (+ determinism sample); the budget only
    # cuts on a loaded machine (measured with load average 30: 3100 runs/s)
    "quick": {"runs": 150000, "budget_s": 90, "timeout_s": 40, "chunk": 256, "det_sample": 256, "det_runs": 2000},
    "thorough": {"runs": 3000000, "budget_s": 600, "timeout_s": 120, "chunk": 512, "det_sample": 512, "det_runs": 5000},
}
RULE = ("seeded plans: (interrupt class and parameters, way of construction [constructor / parse_interrupt from number, "
        "list, tuple, array, 'geometric(a, b)' string], t0, up to 200 moves from a random subset of {stall, small, mult "
        "(exact multiple of the period computed as base+k*dt / accumulated / decimal literal), ulp (1-3 ulp before/after a "
        "scheduled time), to_answer, half, jump (5..1e6 periods), before (query below the previous answer), copy}); a plan "
        "is non-trivial if at least one executed move is not a plain small advance; distinct = distinct (spec, t0, moves); "
        "simulated_time_covered is counted in units of each schedule's initial period (capped at 1e9 per history), "
        "scheduler_steps = number of next() calls")
PROBES = ["probes/catch_up_branch", "probes/exhausted", "probes/query_before_previous_answer", "probes/copy_diverged",
          "probes/exact_hit", "probes/within_roundoff_of_scheduled_time", "probes/via_parse_interrupt",
          "probes/answer_equals_query", "probes/fixed_copy_lost_cursor", "probes/copy_restarted",
          "faults/move_stall", "faults/move_small", "faults/move_mult", "faults/move_ulp", "faults/move_to_answer",
          "faults/move_half", "faults/move_jump", "faults/move_before", "faults/move_copy",
          "probes/same_object_initialised_again", "probes/initialised_again_before_its_first_start"]
COMPONENTS = {
    "real": ["pde.trackers.interrupts.ConstantInterrupts", "pde.trackers.interrupts.FixedInterrupts",
             "pde.trackers.interrupts.LogarithmicInterrupts", "pde.trackers.interrupts.GeometricInterrupts",
             "pde.trackers.interrupts.parse_interrupt", "InterruptsBase.copy / FixedInterrupts.copy"],
    "stub": ["none (time is the argument of initialize/next; RealtimeInterrupts is excluded by the property)"],
    "client_code": ["the query sequence (what a controller / tracker collection would ask)"],
}
ASSUMPTIONS = [
    "periods >= 2e-9*max(1,|t|) for constant and logarithmic schedules (below float resolution `_t_next += dt` is "
    "absorbed and 'strictly later' is unattainable for any implementation); moves that would leave this domain are "
    "executed as a stall (counted in faults/clamped_to_domain)",
    "geometric: scale > 0, 1e-8 <= factor-1 <= 100, queries <= 1e200*scale (non-positive queries are allowed); "
    "logarithmic: 1 <= factor <= 4.2 (200 calls stay far below overflow); fixed: strictly increasing finite lists "
    "(including empty, one element, gaps of one ulp, integer lists); all queries finite; one initialize() per object",
    "'up to round-off' = 8*eps*max(|t|,|a|,|a_prev|) for constant/logarithmic, a relative 8*eps*(1+|ln(t/scale)|) for "
    "geometric (error of the log/ceil estimate), exact for fixed; lattice membership of constant schedules: "
    "|a-(base+k*dt)| <= 4*(calls+1)*eps*max(|a|,|base|,dt) (three additions per call); logarithmic gap i: "
    "|gap - m*dt_i| <= 8*eps*max(|a|,|a_prev|) + m*dt_i*(i+8)*eps with dt_i = dt_initial*factor**i; geometric: "
    "|a - scale*factor**k| <= 8*eps*a",
    "(d) 'no needless skip' is checked for all classes although the statement spells it out only for fixed lists; "
    "for geometric schedules the defining set is taken as k >= 0 (documented as the sequence t_i = scale*factor**i)",
    "copy(): not mentioned by the property. Checked: original and copy continue independently on diverging query "
    "sequences, each against its own model. ConstantInterrupts/LogarithmicInterrupts/GeometricInterrupts copies "
    "continue from the cursor (copy.copy); FixedInterrupts.copy() of a LIVE schedule drops the cursor (next() raises "
    "AttributeError '_index'; py-pde itself only copies before initialize) - this is counted in "
    "probes/fixed_copy_lost_cursor, not reported as a violation (STRICT_LIVE_COPY=False), and the copy is restarted "
    "with initialize(t) as TrackerCollection would do; the 'restart' flavour of the copy move (copy, then "
    "initialize(t)) is used for constant and fixed schedules only, because initialize() of a live logarithmic/"
    "geometric object keeps the grown period / the last point (outside C09)",
    "RealtimeInterrupts excluded (not deterministic); exercised under the simulated clock in C07/C08",
]

EPS = 2.220446049250313e-16
STRICT_LIVE_COPY = False  # True: AttributeError of a live FixedInterrupts copy is a VIOLATION
MAX_CALLS = 200
MAX_OBJECTS = 4
KINDS = ["stall", "small", "mult", "ulp", "to_answer", "half", "jump", "before", "copy"]

_DCTX = decimal.Context(prec=50)


def _dec(x: float) -> decimal.Decimal:
    """The decimal *literal* a user would type for this float (0.1 -> 0.1, not 0.1000000000000000055...)."""
    return decimal.Decimal(repr(float(x)))


# --------------------------------------------------------------------------------------
# reference models (one per class); check_*() return None or (class, detail)
# --------------------------------------------------------------------------------------


class _Model:
    kind = "?"

    def __init__(self):
        self.a = None  # last answer
        self.note: dict = {}  # probes of the last check

    def clone(self):
        return _copy.copy(self)

    def can_continue(self):
        return True

    def _common(self, t, a):
        if a != a:
            return ("nan", f"answer is NaN for query t={t!r}")
        return None


class ConstModel(_Model):
    """t_k = base + k*dt, base = t0 or max(t0, t_start); answer = first t_k with t_k >= t and k > k_prev."""

    kind = "const"

    def __init__(self, dt, t_start):
        super().__init__()
        self.dt = float(dt)
        self.t_start = None if t_start is None else float(t_start)
        self.base = None
        self.k = 0
        self.calls = 0

    def in_domain(self, t):
        return math.isfinite(t) and self.dt >= 2e-9 * max(1.0, abs(t)) and self.dt > 0 and (
            self.t_start is None or self.dt >= 2e-9 * max(1.0, abs(self.t_start)))

    def period(self):
        return self.dt

    def check_init(self, t0, a):
        base = t0 if self.t_start is None else max(t0, self.t_start)
        self.base, self.a, self.k, self.calls = base, base, 0, 0
        if not (a == base):
            return ("initialize", f"initialize({t0!r}) answered {a!r}, expected {base!r} (t_start={self.t_start!r})")
        if a == t0:
            self.note["answer_equals_query"] = 1
        return None

    def ahead(self, j, way, t):
        K = self.k + j
        if way == "acc":
            if K <= 3000:
                x = self.base
                for _ in range(K):
                    x += self.dt
            else:
                x = self.a
                for _ in range(min(j, 3000)):
                    x += self.dt
            return x
        if way == "dec":
            return float(_DCTX.add(_dec(self.base), _DCTX.multiply(decimal.Decimal(K), _dec(self.dt))))
        return self.base + K * self.dt

    def check_next(self, t, a):
        self.calls += 1
        p, dt, base = self.a, self.dt, self.base
        if not math.isfinite(a):
            return ("not-finite", f"constant schedule answered {a!r} for finite query {t!r}")
        rnd = 8 * EPS * max(abs(t), abs(a), abs(p))
        if not a > p:
            return ("not-increasing", f"answer {a!r} is not later than the previous answer {p!r} (query {t!r}, dt={dt!r})")
        if a < t - rnd:
            return ("earlier-than-query", f"answer {a!r} is earlier than the query {t!r} by {t - a:.6g} (dt={dt!r}, previous answer {p!r})")
        k = round((a - base) / dt)
        ref = base + k * dt
        tol = 4 * (self.calls + 1) * EPS * max(abs(a), abs(base), dt)
        if abs(a - ref) > tol:
            return ("off-lattice", f"answer {a!r} is not base + k*dt: base={base!r} dt={dt!r} nearest k={k} -> {ref!r}, off by {a - ref:.6g} > tol {tol:.3g}")
        if k <= self.k:
            return ("not-increasing", f"answer {a!r} is lattice point k={k}, not beyond the previous k={self.k} (previous answer {p!r})")
        if k > self.k + 1:
            self.note["catch_up"] = 1
            prev_pt = base + (k - 1) * dt
            if prev_pt - t > tol + rnd:
                return ("needless-skip", f"answer {a!r} (k={k}) although k={k - 1} -> {prev_pt!r} already lies after the query {t!r} and the previous answer {p!r} (k={self.k})")
            if abs(prev_pt - t) <= tol + rnd:
                self.note["roundoff"] = 1
        if abs(a - t) <= rnd + tol:
            self.note["roundoff"] = 1
        if a == t:
            self.note["answer_equals_query"] = 1
        self.k, self.a = k, a
        return None


class LogModel(_Model):
    """t_i = t_{i-1} + m*dt_i, dt_i = dt_initial*factor**i (i counts next() calls), m >= 1 the smallest
    integer with t_i >= t (documented: durations grow by the factor, interrupts may be skipped)."""

    kind = "log"

    def __init__(self, dt_initial, factor, t_start):
        super().__init__()
        self.dt_initial = float(dt_initial)
        self.factor = float(factor)
        self.t_start = None if t_start is None else float(t_start)
        self.i = 0

    def period(self):
        return self.dt_initial * self.factor ** self.i

    def in_domain(self, t):
        d = self.period()
        return math.isfinite(t) and self.factor >= 1.0 and d > 0 and d >= 2e-9 * max(1.0, abs(t)) and (
            self.t_start is None or d >= 2e-9 * max(1.0, abs(self.t_start)))

    def check_init(self, t0, a):
        base = t0 if self.t_start is None else max(t0, self.t_start)
        self.a = base
        if not (a == base):
            return ("initialize", f"initialize({t0!r}) answered {a!r}, expected {base!r} (t_start={self.t_start!r})")
        if a == t0:
            self.note["answer_equals_query"] = 1
        return None

    def ahead(self, j, way, t):
        d = self.period()
        if way == "acc":
            x = self.a
            for _ in range(min(j, 3000)):
                x += d
            return x
        if way == "dec":
            return float(_DCTX.add(_dec(self.a), _DCTX.multiply(decimal.Decimal(j), _dec(d))))
        return self.a + j * d

    def check_next(self, t, a):
        i = self.i
        d = self.period()
        self.i += 1
        p = self.a
        if not math.isfinite(a):
            return ("not-finite", f"logarithmic schedule answered {a!r} for finite query {t!r}")
        rnd = 8 * EPS * max(abs(t), abs(a), abs(p))
        if not a > p:
            return ("not-increasing", f"answer {a!r} is not later than the previous answer {p!r} (query {t!r}, gap #{i} should be a multiple of {d!r})")
        if a < t - rnd:
            return ("earlier-than-query", f"answer {a!r} is earlier than the query {t!r} by {t - a:.6g} (gap #{i}, dt_i={d!r})")
        gap = a - p
        m = round(gap / d)
        tol = 8 * EPS * max(abs(a), abs(p)) + max(m, 1) * d * (i + 8) * EPS
        if m < 1 or abs(gap - m * d) > tol:
            return ("off-lattice", f"gap #{i} = {a!r} - {p!r} = {gap!r} is not a multiple m>=1 of dt_initial*factor**{i} = {d!r} "
                                   f"(dt_initial={self.dt_initial!r}, factor={self.factor!r}; nearest m={m}, off by {gap - m * d:.6g} > tol {tol:.3g})")
        if m > 1:
            self.note["catch_up"] = 1
            prev_pt = p + (m - 1) * d
            if prev_pt - t > tol + rnd:
                return ("needless-skip", f"gap #{i}: answer {a!r} is {m} periods of {d!r} after {p!r} although {m - 1} periods -> {prev_pt!r} already lie after the query {t!r}")
            if abs(prev_pt - t) <= tol + rnd:
                self.note["roundoff"] = 1
        if abs(a - t) <= rnd + tol:
            self.note["roundoff"] = 1
        if a == t:
            self.note["answer_equals_query"] = 1
        self.a = a
        return None


class GeomModel(_Model):
    """t_k = scale*factor**k, k = 0, 1, 2, ...; answer = first t_k with t_k >= t and k > k_prev."""

    kind = "geom"

    def __init__(self, scale, factor):
        super().__init__()
        self.scale = float(scale)
        self.factor = float(factor)
        self.k = None

    def in_domain(self, t):
        return (math.isfinite(t) and self.scale > 0 and 1e-8 <= self.factor - 1 <= 100.0 and t <= 1e200 * self.scale
                and (self.a is None or self.a <= 1e200 * self.scale))

    def can_continue(self):
        # every call advances by at least one factor, whatever is asked: stop before the lattice overflows
        return self.a is None or (self.a <= 1e200 * self.scale and self.a * self.factor ** 2 < 1e300)

    def point(self, k):
        return self.scale * self.factor ** k

    def period(self):
        a = self.scale if self.a is None else self.a
        return a * (self.factor - 1.0)

    def index_of(self, a):
        est = math.log(a / self.scale) / math.log(self.factor)
        if not math.isfinite(est) or abs(est) > 1e15:
            return None, est
        r = round(est)
        for k in (r, r - 1, r + 1):
            if abs(a - self.point(k)) <= 8 * EPS * a:
                return k, est
        return None, est

    def ahead(self, j, way, t):
        K = max((-1 if self.k is None else self.k) + j, 0)
        if way == "acc":
            if K <= 3000:
                x = self.scale
                for _ in range(K):
                    x *= self.factor
            else:
                x = self.a
                for _ in range(min(j, 3000)):
                    x *= self.factor
            return x
        if way == "dec" and K <= 400:
            try:
                return float(_DCTX.multiply(decimal.Decimal(self.scale), _DCTX.power(decimal.Decimal(self.factor), decimal.Decimal(K))))
            except (decimal.DecimalException, OverflowError):
                pass
        try:
            return self.point(K)
        except OverflowError:
            return math.inf

    def check_init(self, t0, a):
        return self.check_next(t0, a)

    def check_next(self, t, a):
        p, kp = self.a, self.k
        if not math.isfinite(a) or not a > 0:
            return ("not-finite", f"geometric schedule answered {a!r} for query {t!r}")
        rel = 8 * EPS * (1.0 + (abs(math.log(t / self.scale)) if t > 0 and t / self.scale > 0 else 0.0))
        if p is not None and not a > p:
            return ("not-increasing", f"answer {a!r} is not later than the previous answer {p!r} (query {t!r}, scale={self.scale!r}, factor={self.factor!r})")
        if t > 0 and a < t * (1 - rel):
            return ("earlier-than-query", f"answer {a!r} is earlier than the query {t!r} (relative {(t - a) / t:.3g}; scale={self.scale!r}, factor={self.factor!r})")
        k, est = self.index_of(a)
        if k is None or k < 0:
            return ("off-lattice", f"answer {a!r} is not scale*factor**k with integer k>=0: scale={self.scale!r} factor={self.factor!r} "
                                   f"log(a/scale)/log(factor)={est!r}")
        if kp is not None and k <= kp:
            return ("not-increasing", f"answer {a!r} is lattice point k={k}, not beyond the previous k={kp}")
        k_min = 0 if kp is None else kp + 1
        if k > k_min:
            if kp is not None and k > kp + 1:
                self.note["catch_up"] = 1
            prev_pt = self.point(k - 1)
            if t <= 0 or prev_pt > t * (1 + rel):
                return ("needless-skip", f"answer {a!r} (k={k}) although k={k - 1} -> {prev_pt!r} already lies after the query {t!r} "
                                         f"(previous k={kp}; scale={self.scale!r}, factor={self.factor!r})")
            if abs(prev_pt - t) <= t * rel:
                self.note["roundoff"] = 1
        if t > 0 and abs(a - t) <= t * rel:
            self.note["roundoff"] = 1
        if a == t:
            self.note["answer_equals_query"] = 1
        self.k, self.a = k, a
        return None


class FixedModel(_Model):
    """The answer is the first element of the (strictly increasing) list that is >= t and lies after the
    previously returned element; math.inf once there is none, and then forever."""

    kind = "fixed"

    def __init__(self, times):
        super().__init__()
        self.L = [float(x) for x in times]
        self.idx = -1
        self.exhausted = False

    def in_domain(self, t):
        return math.isfinite(t) and abs(t) <= 1e300

    def period(self):
        L = self.L
        if len(L) >= 2:
            j = min(max(self.idx, 0), len(L) - 2)
            return L[j + 1] - L[j]
        return 1.0

    def ahead(self, j, way, t):
        if not self.L or self.exhausted:
            return t + 1.0
        return self.L[min(max(self.idx + j, 0), len(self.L) - 1)]

    def check_init(self, t0, a):
        self.idx, self.exhausted, self.a = -1, False, None
        return self.check_next(t0, a)

    def check_next(self, t, a):
        L, p = self.L, self.a
        if self.exhausted:
            if a != math.inf:
                return ("not-inf-after-exhaustion", f"exhausted schedule answered {a!r} (query {t!r}) instead of inf")
            return None
        j = self.idx + 1
        while j < len(L) and L[j] < t:
            j += 1
        if j > self.idx + 1:
            self.note["catch_up"] = 1
        if j >= len(L):
            self.exhausted, self.idx = True, len(L)
            self.note["exhausted"] = 1
            if a != math.inf:
                return ("not-inf-after-exhaustion", f"no element of the list is left at or after the query {t!r} (previous answer {p!r}) but the answer is {a!r}, not inf")
            self.a = a
            return None
        if a == math.inf:
            return ("wrong-element", f"answer inf although element #{j} = {L[j]!r} is at or after the query {t!r} and after the previous answer {p!r}")
        if p is not None and not a > p:
            return ("not-increasing", f"answer {a!r} is not later than the previous answer {p!r} (query {t!r})")
        if a < t:
            return ("earlier-than-query", f"answer {a!r} is earlier than the query {t!r} (expected element #{j} = {L[j]!r})")
        if a != L[j]:
            return ("wrong-element", f"answer {a!r} is not the first not-yet-passed element #{j} = {L[j]!r} (query {t!r}, previous answer {p!r}, previous index {self.idx})")
        if a == t:
            self.note["answer_equals_query"] = 1
        self.idx, self.a = j, a
        return None


def _parse_geometric_text(text):
    """Independent reading of the documented "geometric(SCALE, FACTOR)" form."""
    inner = text[text.index("(") + 1:text.rindex(")")]
    s, f = inner.split(",")
    return float(s.strip()), float(f.strip())


def _make_model(plan):
    spec = plan["spec"]
    typ = spec["type"]
    if typ == "const":
        return ConstModel(spec["dt"], spec.get("t_start"))
    if typ == "log":
        return LogModel(spec["dt_initial"], spec["factor"], spec.get("t_start"))
    if typ == "geom":
        if spec.get("via") == "parse_str":
            s, f = _parse_geometric_text(spec["text"])
            return GeomModel(s, f)
        return GeomModel(spec["scale"], spec["factor"])
    if typ == "fixed":
        return FixedModel(plan["times"])
    raise ValueError(typ)


# --------------------------------------------------------------------------------------
# execution
# --------------------------------------------------------------------------------------

_CLASS_NAME = {"const": "ConstantInterrupts", "log": "LogarithmicInterrupts", "geom": "GeometricInterrupts",
               "fixed": "FixedInterrupts"}


def _build(mod, plan):
    """The interrupt object described by the plan, built the way the plan says."""
    import numpy as np

    spec = plan["spec"]
    typ, via = spec["type"], spec.get("via", "ctor")
    if typ == "const":
        if via == "parse_float":
            return mod.parse_interrupt(float(spec["dt"]))
        if via == "parse_int":
            return mod.parse_interrupt(int(spec["dt"]))
        if spec.get("t_start") is None:
            return mod.ConstantInterrupts(spec["dt"]) if via == "ctor_short" else mod.ConstantInterrupts(spec["dt"], t_start=None)
        return mod.ConstantInterrupts(spec["dt"], t_start=spec["t_start"])
    if typ == "log":
        obj = mod.LogarithmicInterrupts(spec["dt_initial"], spec["factor"], t_start=spec.get("t_start"))
        return mod.parse_interrupt(obj) if via == "parse_instance" else obj
    if typ == "geom":
        if via == "parse_str":
            return mod.parse_interrupt(spec["text"])
        return mod.GeometricInterrupts(spec["scale"], spec["factor"])
    if typ == "fixed":
        times = list(plan["times"])
        if via in ("parse_int_list", "ctor_int_list"):
            times = [int(x) for x in times]
        if via in ("parse_list", "parse_int_list"):
            return mod.parse_interrupt(times)
        if via == "parse_tuple":
            return mod.parse_interrupt(tuple(times))
        if via == "parse_array":
            return mod.parse_interrupt(np.array(times, dtype=float))
        if via == "ctor_array":
            return mod.FixedInterrupts(np.array(times, dtype=float))
        return mod.FixedInterrupts(times)
    raise ValueError(typ)


class _Obj:
    __slots__ = ("obj", "model", "t", "a", "fresh", "restart", "src", "calls_since_copy", "n")

    def __init__(self, obj, model, t, a):
        self.obj, self.model, self.t, self.a = obj, model, t, a
        self.fresh = False  # a copy that has not answered yet
        self.restart = False
        self.src = None
        self.calls_since_copy = 0
        self.n = 0


def _candidate(move, st):
    k = move["k"]
    t, a, m = st.t, st.a, st.model
    fin = a is not None and math.isfinite(a)
    P = m.period()
    if k == "small":
        return t + move["f"] * P
    if k == "mult":
        return m.ahead(move["j"], move["way"], t)
    if k == "ulp":
        x = m.ahead(move["j"], "mul", t) if move["j"] > 0 or not fin else a
        n = move["n"]
        for _ in range(abs(n)):
            x = math.nextafter(x, math.inf if n > 0 else -math.inf)
        return x
    if k == "to_answer":
        return a if fin else t
    if k == "half":
        return t + 0.5 * (a - t) if fin and a > t else t
    if k == "jump":
        return (max(t, a) if fin else t) + (move["x"] + move["f"]) * P
    if k == "before":
        return a - move["f"] * P if fin else t
    return t  # stall


def _as_float(x):
    try:
        return float(x)
    except Exception:  # noqa: BLE001
        return None


def execute(plan: dict) -> dict:
    mod = importlib.import_module("pde.trackers.interrupts")
    log = EventLog()
    stats: dict = {"faults": {}, "probes": {}}
    log.add("plan", digest_of(plan))
    spec = plan["spec"]
    typ = spec["type"]
    viol = None
    executed_kinds = set()
    calls = 0
    sim_time = 0.0

    def probe(name, n=1):
        stats["probes"][name] = stats["probes"].get(name, 0) + n

    def fault(name, n=1):
        stats["faults"][name] = stats["faults"].get(name, 0) + n

    def fail(klass, detail):
        nonlocal viol
        if viol is None:
            kl = f"C09/{typ}/{klass}"
            viol = violation(kl, f"{_describe(plan)}: {detail}", kl)

    def finish():
        log.add("verdict", viol["class"] if viol else None)
        return {"violation": viol, "digest": log.digest(), "stats": stats,
                "nontrivial": bool(executed_kinds - {"small"}),
                "sig": digest_of([plan["spec"], plan.get("times"), plan["t0"], plan["moves"]]),
                "sim_time": sim_time, "sched_steps": calls, "events_head": log.head[:60]}

    def harvest(model):
        note, model.note = model.note, {}
        if note.get("catch_up"):
            probe("catch_up_branch")
        if note.get("exhausted"):
            probe("exhausted")
        if note.get("roundoff"):
            probe("within_roundoff_of_scheduled_time")
        if note.get("answer_equals_query"):
            probe("answer_equals_query")

    model = _make_model(plan)
    t0 = float(plan["t0"])
    if not model.in_domain(t0):
        probe("plan_outside_domain")
        return finish()
    try:
        obj = _build(mod, plan)
    except Exception as e:  # noqa: BLE001 - the documented constructors must accept these arguments
        fail("construct", f"constructing the interrupt raised {type(e).__name__}: {e}")
        return finish()
    if type(obj).__name__ != _CLASS_NAME[typ]:
        fail("construct", f"got a {type(obj).__name__}, expected {_CLASS_NAME[typ]} (via={spec.get('via')})")
        return finish()
    if str(spec.get("via", "ctor")).startswith("parse"):
        probe("via_parse_interrupt")
    try:
        a_raw = obj.initialize(t0)
    except Exception as e:  # noqa: BLE001
        fail("raised", f"initialize({t0!r}) raised {type(e).__name__}: {e}")
        return finish()
    a = _as_float(a_raw)
    log.add("init", fbits(t0), None if a is None else fbits(a))
    if a is None:
        fail("nan", f"initialize({t0!r}) returned {a_raw!r}")
        return finish()
    err = model._common(t0, a) or model.check_init(t0, a)
    harvest(model)
    if err:
        fail(*err)
        return finish()
    objs = [_Obj(obj, model, t0, a)]
    period0 = model.period()

    for move in plan["moves"]:
        if calls >= MAX_CALLS or viol is not None:
            break
        kind = move["k"]
        st = objs[move.get("slot", 0) % len(objs)]
        if kind == "copy":
            if len(objs) >= MAX_OBJECTS:
                continue
            try:
                c = st.obj.copy()
            except Exception as e:  # noqa: BLE001
                fail("raised", f"copy() of a live interrupt raised {type(e).__name__}: {e}")
                break
            new = _Obj(c, st.model.clone(), st.t, st.a)
            new.fresh = True
            new.restart = bool(move.get("restart")) and typ in ("const", "fixed")
            new.src = st
            st.calls_since_copy = 0
            objs.append(new)
            executed_kinds.add("copy")
            fault("move_copy")
            log.add("copy", objs.index(st), len(objs) - 1, new.restart)
            continue

        forced = None
        if kind == "reinit":
            # the SAME object is initialised again, as a tracker used for a second run is - at any time, also one EARLIER than
            # its very first start (constant and fixed schedules only: initialize() of a used logarithmic / geometric
            # schedule does not reset it, which is outside the property - see ASSUMPTIONS)
            if typ not in ("const", "fixed"):
                continue
            span = max(abs(st.t - t0), period0)
            forced = t0 + float(move["f"]) * span
            if not (math.isfinite(forced) and st.model.in_domain(forced)):
                continue
            probe("same_object_initialised_again")
            if forced < t0:
                probe("initialised_again_before_its_first_start")
        if forced is None and not st.model.can_continue():
            fault("skipped_at_end_of_domain")
            continue
        if forced is None:
            cand = _candidate(move, st)
            t = st.t
            if isinstance(cand, float) and math.isfinite(cand) and cand > t:
                if st.model.in_domain(cand):
                    t = cand
                else:
                    fault("clamped_to_domain")
        else:
            t = forced
        slot = objs.index(st)
        executed_kinds.add(kind)
        fault("move_" + kind)
        prev_a = st.a

        # -- a copy that has to be (re)started: copy, then initialize(t) as TrackerCollection does
        restarted = False
        if (st.fresh and st.restart) or forced is not None:
            restarted = True
        a_raw = None
        if not restarted:
            try:
                a_raw = st.obj.next(t)
            except AttributeError as e:
                if st.fresh and typ == "fixed" and not STRICT_LIVE_COPY and "_index" in str(e):
                    # FixedInterrupts.copy() keeps the list but not the cursor (see ASSUMPTIONS)
                    probe("fixed_copy_lost_cursor")
                    restarted = True
                else:
                    fail("raised", f"next({t!r}) on object #{slot} raised AttributeError: {e}")
                    break
            except Exception as e:  # noqa: BLE001
                fail("raised", f"next({t!r}) on object #{slot} raised {type(e).__name__}: {e}")
                break
        if restarted:
            probe("copy_restarted")
            try:
                a_raw = st.obj.initialize(t)
            except Exception as e:  # noqa: BLE001
                fail("raised", f"initialize({t!r}) of a copy raised {type(e).__name__}: {e}")
                break
            st.model = _make_model(plan)
        calls += 1
        st.n += 1
        st.calls_since_copy += 1
        a = _as_float(a_raw)
        log.add("init*" if restarted else "next", slot, kind, fbits(t), None if a is None else fbits(a))
        if a is None:
            fail("nan", f"next({t!r}) returned {a_raw!r}")
            break
        if not restarted and prev_a is not None and math.isfinite(prev_a):
            if t < prev_a and kind == "before":
                probe("query_before_previous_answer")
            if t == prev_a:
                probe("exact_hit")
        err = st.model._common(t, a) or (st.model.check_init(t, a) if restarted else st.model.check_next(t, a))
        harvest(st.model)
        st.fresh = False
        st.t, st.a = t, a
        if math.isfinite(t):
            sim_time = max(sim_time, min((t - t0) / period0, 1e9))  # in units of the initial period
        if err:
            who = "" if slot == 0 else f" [object #{slot}, a copy]"
            if slot == 0 and len(objs) > 1:
                who = " [object #0, the original; copies of it are live as well]"
            fail(err[0], err[1] + who + f" (call #{calls})")
            break

    for st in objs:
        if st.src is not None and st.n >= 1 and st.src.calls_since_copy >= 1 and (st.t != st.src.t or st.a != st.src.a):
            probe("copy_diverged")
    return finish()


def _describe(plan):
    spec = plan["spec"]
    typ = spec["type"]
    via = spec.get("via", "ctor")
    if typ == "const":
        s = f"ConstantInterrupts(dt={spec['dt']!r}, t_start={spec.get('t_start')!r})"
    elif typ == "log":
        s = f"LogarithmicInterrupts(dt_initial={spec['dt_initial']!r}, factor={spec['factor']!r}, t_start={spec.get('t_start')!r})"
    elif typ == "geom":
        s = f"parse_interrupt({spec['text']!r})" if via == "parse_str" else f"GeometricInterrupts(scale={spec['scale']!r}, factor={spec['factor']!r})"
    else:
        tt = plan["times"]
        s = f"FixedInterrupts({tt!r})" if len(tt) <= 8 else f"FixedInterrupts([{tt[0]!r}, {tt[1]!r}, ... {len(tt)} elements ..., {tt[-1]!r}])"
    return f"{s} [via {via}] initialize({plan['t0']!r})"


# --------------------------------------------------------------------------------------
# plan generation (pure function of the rng)
# --------------------------------------------------------------------------------------

_NICE_DT = [1.0, 1.0, 0.5, 0.1, 0.25, 0.2, 0.3, 2.0, 10.0, 0.01, 1e-3, 1.0 / 3.0, 0.7, 1.5, 3.0, 0.05, 100.0, 0.6, 1e-4]
_NICE_T0 = [1.0, -1.0, 0.1, 10.0, 100.0, 0.5, -0.3, 1e3, 2.0, 0.3]
_NICE_GEOM_FACTOR = [2.0, 2.0, 10.0, 1.5, 1.1, 3.0, math.e, 1.01, 2.0 ** 0.5, 1.001, 4.0, 1.25]
_NICE_LOG_FACTOR = [1.0, 1.0, 2.0, 2.0, 1.5, 1.1, 1.01, 3.0, 1.2, 4.0]


def _pos(rng, nice, lo=-6, hi=3):
    if rng.random() < 0.55:
        return rng.choice(nice)
    return rng.uniform(1.0, 10.0) * 10.0 ** rng.randint(lo, hi)


def _gen_t0(rng, dt):
    r = rng.random()
    if r < 0.45:
        t0 = 0.0
    elif r < 0.62:
        t0 = rng.choice(_NICE_T0)
    elif r < 0.74:
        t0 = rng.randint(-50, 1000) * dt
    else:
        t0 = rng.uniform(-1e3, 1e3) * dt * rng.choice([1e-2, 1.0, 1.0, 1e2])
    if abs(t0) > dt * 1e6:
        t0 = 0.0
    return t0


def _gen_t_start(rng, dt, t0):
    r = rng.random()
    if r < 0.45:
        return None
    if r < 0.6:
        ts = t0 + rng.randint(1, 20) * dt
    elif r < 0.7:
        ts = t0
    elif r < 0.8:
        ts = t0 - rng.uniform(0.0, 30.0) * dt
    elif r < 0.9:
        ts = t0 + rng.uniform(0.0, 30.0) * dt
    else:
        ts = rng.choice([0.0, 1.0, 10.0, 0.5, 100.0])
    if abs(ts) > dt * 1e6:
        return None
    return ts


def _gen_times(rng):
    n = rng.choice([0, 1, 1, 2, 3, 3, 5, 8, 8, 20, 60])
    style = rng.choice(["arith", "arith", "ints", "random", "random", "geom", "ulp"])
    dt = _pos(rng, _NICE_DT, -4, 2)
    start = rng.choice([0.0, 0.0, dt, 1.0, -1.0, rng.uniform(-10, 10) * dt])
    if style == "arith":
        times = [start + i * dt for i in range(n)]
    elif style == "ints":
        s = rng.randint(-3, 5)
        step = rng.choice([1, 1, 2, 5])
        times = [float(s + i * step) for i in range(n)]
    elif style == "random":
        times, x = [], start
        for _ in range(n):
            times.append(x)
            x += dt * rng.choice([rng.uniform(0.01, 3.0), 1.0, 0.5, 1e-9, 10.0])
    elif style == "geom":
        f = rng.choice([2.0, 1.5, 10.0, 1.1])
        times = [abs(dt) * f ** i for i in range(n)]
    else:  # neighbours in float space
        times, x = [], start
        for _ in range(n):
            times.append(x)
            x = math.nextafter(x, math.inf) if rng.random() < 0.5 else x + dt
    out = []
    for x in times:  # strictly increasing, finite
        x = float(x)
        if math.isfinite(x) and (not out or x > out[-1]):
            out.append(x)
    return out


def _fmt_num(rng, x):
    if float(x).is_integer() and abs(x) < 1e6 and rng.random() < 0.6:
        return str(int(x))
    s = repr(float(x))
    return s.upper() if "e" in s and rng.random() < 0.3 else s


def _gen_spec(rng, typ):
    times = None
    if typ == "const":
        dt = _pos(rng, _NICE_DT)
        t0 = _gen_t0(rng, dt)
        ts = _gen_t_start(rng, dt, t0)
        spec = {"type": "const", "dt": dt, "t_start": ts, "via": "ctor"}
        if ts is None:
            vias = ["ctor", "ctor_short", "parse_float"] + (["parse_int"] if float(dt).is_integer() else [])
            spec["via"] = rng.choice(vias)
    elif typ == "log":
        dt = _pos(rng, _NICE_DT)
        t0 = _gen_t0(rng, dt)
        ts = _gen_t_start(rng, dt, t0)
        f = rng.choice(_NICE_LOG_FACTOR) if rng.random() < 0.6 else 1.0 + 10.0 ** rng.uniform(-6.0, 0.5)
        spec = {"type": "log", "dt_initial": dt, "factor": f, "t_start": ts, "via": rng.choice(["ctor", "ctor", "parse_instance"])}
    elif typ == "geom":
        scale = _pos(rng, [1.0, 1.0, 0.1, 1e-3, 0.5, 2.0, 10.0, 0.01, 3.0])
        f = rng.choice(_NICE_GEOM_FACTOR) if rng.random() < 0.6 else 1.0 + 10.0 ** rng.uniform(-8.0, 2.0)
        f = min(max(f, 1.0 + 1e-8), 101.0)
        r = rng.random()
        if r < 0.4:
            t0 = 0.0
        elif r < 0.5:
            t0 = -rng.choice([1.0, 0.5, 100.0, scale])
        elif r < 0.6:
            t0 = scale
        elif r < 0.75:
            t0 = scale * f ** rng.randint(0, 12)
        elif r < 0.85:
            t0 = scale * 10.0 ** rng.uniform(-8, 0)
        else:
            t0 = scale * 10.0 ** rng.uniform(0, 6)
        if not (math.isfinite(t0) and t0 <= 1e100 * scale):
            t0 = 0.0
        spec = {"type": "geom", "scale": scale, "factor": f, "via": "ctor"}
        if rng.random() < 0.4:
            sp1, sp2, sp3 = (rng.choice(["", " ", "  "]) for _ in range(3))
            spec["via"] = "parse_str"
            spec["text"] = f"geometric({sp1}{_fmt_num(rng, scale)}{sp2},{sp3}{_fmt_num(rng, f)}{sp1})"
    else:
        times = _gen_times(rng)
        vias = ["ctor", "ctor", "ctor_array", "parse_list", "parse_list", "parse_tuple", "parse_array"]
        if times and all(x.is_integer() and abs(x) < 1e9 for x in times):
            vias += ["parse_int_list", "ctor_int_list", "parse_int_list"]
        spec = {"type": "fixed", "via": rng.choice(vias)}
        r = rng.random()
        if not times:
            t0 = rng.choice([0.0, 1.0, -1.0])
        elif r < 0.35:
            t0 = times[0]
        elif r < 0.6:
            t0 = times[0] - rng.choice([1.0, 0.5, 1e-9, 100.0, abs(times[0]) * 1e-16])
        elif r < 0.75:
            t0 = rng.choice(times)
        elif r < 0.92:
            t0 = rng.uniform(times[0], times[-1])
        else:
            t0 = times[-1] + rng.choice([0.0, 1e-9, 1.0])
    return spec, float(t0), times


def _gen_move(rng, kind):
    m = {"k": kind, "slot": rng.choice([0, 0, 0, 1, 1, 2, 3])}
    if kind == "small":
        m["f"] = rng.choice([0.5, 0.25, 0.1, 0.01, 1.0 / 3.0, rng.uniform(0.001, 0.6), rng.uniform(0.001, 0.6)])
    elif kind == "mult":
        m["j"] = rng.choice([0, 1, 1, 1, 2, 2, 3, 4, rng.randint(5, 50)])
        m["way"] = rng.choice(["mul", "acc", "dec"])
    elif kind == "ulp":
        m["j"] = rng.choice([0, 1, 1, 1, 2, 3])
        m["n"] = rng.choice([-3, -2, -1, -1, -1, 1, 1, 1, 2, 3])
    elif kind == "jump":
        m["x"] = int(10.0 ** rng.uniform(math.log10(5.0), 6.0))
        m["f"] = rng.choice([0.0, 0.0, 0.5, rng.random(), 1e-9, 1.0 - 1e-9])
    elif kind == "before":
        m["f"] = rng.choice([1e-13, 1e-9, 1e-6, 1e-3, 0.01, 0.1, 0.25, 0.5, rng.uniform(0.0, 0.5)])
    elif kind == "copy":
        m["restart"] = rng.random() < 0.3
    return m


def gen_plan(rng, tier: str, idx: int) -> dict:
    typ = rng.choice(["const"] * 7 + ["log"] * 4 + ["geom"] * 4 + ["fixed"] * 5)
    spec, t0, times = _gen_spec(rng, typ)
    # swarm: every plan enables its own subset of move kinds with its own weights
    if rng.random() < 0.06:
        enabled = ["small"]
    else:
        enabled = [k for k in KINDS if rng.random() < 0.55]
        if len(enabled) < 2:
            enabled = rng.sample(KINDS, 3)
    weights = [rng.choice([1, 1, 2, 4]) * (0.35 if k == "copy" else 1.0) for k in enabled]
    n = rng.choice([rng.randint(1, 8), rng.randint(5, 40), rng.randint(5, 40), rng.randint(20, 120), rng.randint(100, MAX_CALLS)])
    moves = [_gen_move(rng, rng.choices(enabled, weights)[0]) for _ in range(n)]
    # the same object initialised again (a tracker used for a second run), possibly before its very first start (drawn last)
    if typ in ("const", "fixed") and rng.random() < 0.2:
        for _ in range(rng.choice([1, 1, 2])):
            moves.insert(rng.randint(0, len(moves)), {"k": "reinit", "slot": 0,
                                                      "f": rng.choice([-3.0, -1.0, -0.5, -0.25, 0.0, 0.5, 1.0, rng.uniform(-2.0, 1.0)])})
    plan = {"prop": PROPERTY, "spec": spec, "t0": t0, "moves": moves}
    if times is not None:
        plan["times"] = times
    return plan


# --------------------------------------------------------------------------------------
# minimisation support
# --------------------------------------------------------------------------------------


def shrink_lists(plan):
    return ["moves", "times"] if plan["spec"]["type"] == "fixed" else ["moves"]


def simplify(plan):
    def variant(fn):
        p = _copy.deepcopy(plan)
        fn(p)
        s = p["spec"]
        if s["type"] == "geom" and s.get("via") == "parse_str":
            s["text"] = f"geometric({s['scale']!r}, {s['factor']!r})"
        elif "text" in s:
            del s["text"]
        return p

    spec = plan["spec"]
    typ = spec["type"]
    if spec.get("via", "ctor") != "ctor":
        yield variant(lambda p: p["spec"].update(via="ctor"))
    if plan["t0"] != 0.0:
        yield variant(lambda p: p.update(t0=0.0))
        if plan["t0"] != round(plan["t0"]):
            yield variant(lambda p: p.update(t0=float(round(p["t0"]))))
    if spec.get("t_start") is not None:
        yield variant(lambda p: p["spec"].update(t_start=None))
        if spec["t_start"] != round(spec["t_start"]):
            yield variant(lambda p: p["spec"].update(t_start=float(round(p["spec"]["t_start"]))))
    if typ == "const":
        for v in (1.0, 0.5, 0.1, float(f"{spec['dt']:.1g}"), float(f"{spec['dt']:.2g}")):
            if v > 0 and spec["dt"] != v:
                yield variant(lambda p, v=v: p["spec"].update(dt=v))
    elif typ == "log":
        for v in (1.0, 0.5, 0.1, float(f"{spec['dt_initial']:.1g}")):
            if v > 0 and spec["dt_initial"] != v:
                yield variant(lambda p, v=v: p["spec"].update(dt_initial=v))
        for v in (2.0, 1.0, 1.5, float(f"{spec['factor']:.2g}")):
            if v >= 1 and spec["factor"] != v:
                yield variant(lambda p, v=v: p["spec"].update(factor=v))
    elif typ == "geom":
        for v in (1.0, 0.1, float(f"{spec['scale']:.1g}")):
            if v > 0 and spec["scale"] != v:
                yield variant(lambda p, v=v: p["spec"].update(scale=v))
        for v in (2.0, 10.0, 1.5, float(f"{spec['factor']:.2g}"), float(f"{spec['factor']:.3g}")):
            if v > 1 and spec["factor"] != v:
                yield variant(lambda p, v=v: p["spec"].update(factor=v))
    else:
        tt = plan["times"]
        ints = [float(i + 1) for i in range(len(tt))]
        if tt != ints:
            yield variant(lambda p: p.update(times=ints))
        rounded = [float(f"{x:.3g}") for x in tt]
        if rounded != tt and all(b > a for a, b in zip(rounded, rounded[1:])):
            yield variant(lambda p: p.update(times=rounded))
    for i, m in enumerate(plan["moves"]):
        if m.get("slot", 0) != 0:
            yield variant(lambda p, i=i: p["moves"][i].update(slot=0))
        k = m["k"]
        if k == "small" and m["f"] != 0.5:
            yield variant(lambda p, i=i: p["moves"][i].update(f=0.5))
        if k == "mult":
            if m["way"] != "mul":
                yield variant(lambda p, i=i: p["moves"][i].update(way="mul"))
            if m["j"] > 1:
                yield variant(lambda p, i=i: p["moves"][i].update(j=1))
        if k == "ulp":
            if abs(m["n"]) > 1:
                yield variant(lambda p, i=i: p["moves"][i].update(n=1 if p["moves"][i]["n"] > 0 else -1))
            if m["j"] > 1:
                yield variant(lambda p, i=i: p["moves"][i].update(j=1))
        if k == "jump":
            for x in (5, 10, 100, 1000):
                if x < m["x"]:
                    yield variant(lambda p, i=i, x=x: p["moves"][i].update(x=x))
                    break
            if m["f"] not in (0.0, 0.5):
                yield variant(lambda p, i=i: p["moves"][i].update(f=0.5))
                yield variant(lambda p, i=i: p["moves"][i].update(f=0.0))
        if k == "before" and m["f"] not in (0.5, 0.25):
            yield variant(lambda p, i=i: p["moves"][i].update(f=0.25))
        if k == "copy" and m.get("restart"):
            yield variant(lambda p, i=i: p["moves"][i].update(restart=False))
        if k not in ("small", "copy"):
            yield variant(lambda p, i=i: p["moves"].__setitem__(i, {"k": "small", "f": 0.5, "slot": p["moves"][i].get("slot", 0)}))
