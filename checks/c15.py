"""C15 - field objects share or isolate memory exactly as documented.
Engine: alias-sim (this file); DESIGN.md 4.7.

A run is a seeded history of operations through several handles (fields, collections, component
views, raw `data` / `_data_full` arrays) onto shared buffers.  A small executable memory model -
a set of buffers (shadow copies INCLUDING ghost cells, stored as `(components, *padded grid shape)`)
and a set of handles (buffer id, component range, valid/full view, kind) - is advanced op by op
from what the documentation says (which operation aliases, which copies, the layout "fields in
order, tensor components row-major", "in-place operations touch valid cells only") and compared
with py-pde after EVERY operation:

* every live handle shows exactly the model's bytes (raw bytes, so NaN patterns and signed zeros
  count), i.e. a write is seen through every alias at the right position and through nothing else,
  operands of binary operations are unchanged, ghost cells are unchanged by in-place operations;
* `np.shares_memory(a, b)` equals the model's alias relation for every pair of live handles;
* `field.data` is a live view of the valid cells of `field._data_full`;
* every member `fc[i]` of a live collection is exactly the expected slab of the collection's array;
* objects returned for `out=` / by in-place operators are the objects handed in.

Cells whose value is the result of floating-point arithmetic (binary / in-place / apply / operator
results) are compared with the model's prediction within 1e-9 relative and then adopted, so that all
later comparisons are exact again; cells about which the documentation is silent (ghost cells of
freshly created objects) are overwritten by the harness with unique finite values right after the
creation (a legal write through `_data_full`), which also removes every trace of uninitialised
memory from the run (determinism) and makes ghost cells attributable.
"""

from __future__ import annotations

import copy as _copy
import gc
import hashlib
import operator as _operator

from sim import core

PROPERTY = "C15"
ISOLATE = True
TIERS = {
    "quick": {"runs": 14000, "budget_s": 100, "timeout_s": 40, "chunk": 32, "det_sample": 48, "det_runs": 300,
              "shrink_execs": 600, "shrink_s": 60.0},
    "thorough": {"runs": 400000, "budget_s": 570, "timeout_s": 60, "chunk": 32, "det_sample": 64, "det_runs": 1000,
                 "shrink_execs": 800, "shrink_s": 120.0},
}
RULE = ("seeded histories of <= 40 (thorough: <= 60) operations on one tiny grid (1-3d Unit/Cartesian, polar, cylindrical; "
        "<= 4 cells per axis): construct scalar/vector/tensor fields and collections (real/complex), derive handles (.data, "
        "._data_full, fc[i], v[i]/v['x'], t[i,j], copy, slice, append, from_data, from_scalars, unary, binary, operators, "
        "to_scalar, dot, tensor conversions, numpy ufuncs on scalar fields, smooth, storage round trip), write unique "
        "sentinels, in-place arithmetic (incl. transpose/symmetrize in place), setitem/data assignment, set_ghost_cells, "
        "apply/apply_operator/dot/ufunc/smooth with out=, drop+gc; swarm: every run enables a random subset of operation kinds; a run is non-trivial if at least one "
        "sentinel was written through a handle while another live handle covered the written cell; distinct = distinct "
        "(grid, operation list)")
PROBES = ["probes/write_seen_through_alias", "probes/relink_dropped_handle", "probes/inplace_with_collection",
          "probes/component_view_write", "probes/out_argument", "probes/write_collection_member_pair",
          "probes/ghost_ctor_aliases_user_array", "probes/operator_on_view", "probes/upcast_on_relink",
          "probes/collection_with_identical_fields", "probes/storage_reread", "probes/ghost_cell_write_via_full_array",
          "probes/inplace_operand_aliases_target", "probes/copy_via_deepcopy", "probes/copy_via_pickle",
          "probes/single_precision_plan", "probes/collection_from_mapping", "probes/interpolate_to_equal_grid"]
COMPONENTS = {
    "real": ["pde.fields.base.FieldBase", "pde.fields.datafield_base.DataFieldBase", "ScalarField", "VectorField",
             "Tensor2Field", "FieldCollection", "pde.storage.memory.MemoryStorage (round trip of one frame)",
             "grids UnitGrid/CartesianGrid/PolarSymGrid/CylindricalSymGrid with their operators and boundary conditions "
             "(numba backend in python mode: same source executed by CPython)", "numpy (views, ufuncs, shares_memory)"],
    "stub": ["LLVM code generation (NUMBA_DISABLE_JIT=1)"],
    "client_code": ["the operation histories themselves (what a user script would do with the objects)"],
}
ASSUMPTIONS = [
    "the padded array is observed through the private attribute `_data_full` (the property text names it)",
    "what happens to a user array passed with with_ghost_cells=True is not documented (the docstring is silent, a source "
    "comment says 'without copying (unless necessary)'): the relation is OBSERVED once (same memory or disjoint) and from "
    "then on only numpy's own semantics are relied upon",
    "ghost cells of freshly created objects (constructors, copies, results, collections) are unspecified by the "
    "documentation: the harness overwrites them with unique finite values through `_data_full` right after the creation; "
    "ghost cells written by set_ghost_cells / apply_operator(bc=...) are adopted (their values belong to other properties), "
    "everything outside the ghost cells of the addressed field must stay bit-identical",
    "values produced by floating-point arithmetic are compared within 1e-9 relative (non-finite accepted for non-finite) "
    "and then adopted; copies, assignments, negation, real/imag/conjugate and sentinel writes are compared bit for bit",
    "operator and smooth results are compared (1e-9) with the same call on an independent field built from the model's "
    "bytes; `out=` targets that partially overlap the source, and operator/dot `out=` targets living in a source's own "
    "buffer, are not generated (not documented to work); smooth only on real fields",
    "FieldCollection.from_data with complex data and with_ghost_cells=False is not generated (numpy drops the imaginary part "
    "with a ComplexWarning; a dtype/value matter outside this property)",
    "after FieldCollection(fields, copy_fields=False) every OTHER handle onto the buffers the fields used to live in "
    "(old collection, old data arrays, old component views, siblings) is dropped from the model, not asserted on",
    "only documented-legal operand combinations are generated (same grid, compatible classes, castable dtypes, scalar "
    "exponents, non-empty slices); any exception raised by py-pde in a generated operation is a violation",
    "<= 10 live handles, grids with 2-4 cells per axis, float64 / complex128 (8% of the plans: float32 / complex64 with the operations that involve no arithmetic - "
    "py-pde's rules for promoting single precision are not documented), labels of collections not exercised",
]

_CAP = 10
_CLS_RANK = {"S": 0, "V": 1, "T": 2}
_BCS = ["auto_periodic_neumann", "auto_periodic_dirichlet", "auto_periodic_curvature", {"value": 1.5}, {"derivative": -0.5}]
_OPERATORS = {"S": [("laplace", "S", "laplace"), ("gradient", "V", "gradient"), ("gradient_squared", "S", "gradient_squared")],
              "V": [("divergence", "S", "divergence"), ("vector_gradient", "T", "gradient"), ("vector_laplace", "V", "laplace")],
              "T": [("tensor_divergence", "V", "divergence")]}
_NUMS_RE = [2.0, 0.5, 3.0, -1.5, 1.25, -2.0, 0.75, 4.0]
_NUMS_IM = [1.0, -0.5, 2.0, 0.25]
_POWS = [2.0, 3.0, 2.0, 0.5, -1.0, 1.0]

_OP_WEIGHTS = {
    "new": 4, "fc": 8, "from_data": 2, "from_scalars": 1,
    "data": 5, "full": 3, "member": 6, "comp": 6,
    "copy": 4, "slice": 3, "append": 3, "unary": 3, "binary": 5,
    "inplace": 9, "write": 20, "setitem": 5, "setdata": 4,
    "ghost": 3, "operator": 5, "apply": 3, "store": 2, "reread": 2, "drop": 2,
    "tconvert": 2, "ufunc": 2, "smooth": 2, "toscalar": 2, "dot": 2,
    "interp_grid": 2, "trace": 1,
}
_CORE_KINDS = ("new", "write")
# single-precision plans (float32 / complex64 fields): only operations without arithmetic, whose outcome does not depend on
# py-pde's (undocumented) rules for promoting single to double precision - what is decided there is aliasing, not values
_SINGLE_KINDS = ("new", "data", "full", "comp", "copy", "write", "setitem", "setdata", "drop", "ghost")


def prepare():
    from sim.prewarm import prewarm_pde

    prewarm_pde()


# ----------------------------------------------------------------------------------------------
# plan generation
# ----------------------------------------------------------------------------------------------


def _gen_grid(rng):
    r = rng.random()
    n = lambda: rng.randint(2, 4)  # noqa: E731
    if r < 0.22:
        return {"type": "unit", "shape": [n()], "periodic": [rng.random() < 0.3]}
    if r < 0.34:
        return {"type": "cart", "bounds": [[rng.choice([0.0, -1.0]), rng.choice([1.0, 2.5])]], "shape": [n()],
                "periodic": [rng.random() < 0.3]}
    if r < 0.52:
        return {"type": "unit", "shape": [n(), n()], "periodic": [rng.random() < 0.3, rng.random() < 0.3]}
    if r < 0.62:
        return {"type": "cart", "bounds": [[0.0, 1.0], [-1.0, 2.0]], "shape": [n(), n()],
                "periodic": [rng.random() < 0.3, rng.random() < 0.3]}
    if r < 0.72:
        return {"type": "unit", "shape": [rng.randint(2, 3), rng.randint(2, 3), rng.randint(2, 3)],
                "periodic": [rng.random() < 0.3, False, rng.random() < 0.3]}
    if r < 0.88:
        return {"type": "polar", "r_in": rng.choice([0.0, 0.0, 1.0]), "r_out": 3.0, "shape": [n()]}
    return {"type": "cyl", "r_in": rng.choice([0.0, 0.0, 0.5]), "r_out": 2.0, "z": [0.0, 1.5], "shape": [rng.randint(2, 3), rng.randint(2, 3)],
            "periodic_z": rng.random() < 0.3}


def _gen_val(rng, pc):
    return {"t": rng.choice(["num", "num", "arr", "h", "h", "h"]), "re": rng.choice(_NUMS_RE),
            "im": rng.choice(_NUMS_IM) if rng.random() < pc else 0.0, "slot": rng.randrange(64),
            "shape": rng.choice(["data", "grid"]), "seed": rng.randrange(1 << 30)}


def _gen_op(rng, kind, pc):
    s = lambda: rng.randrange(64)  # noqa: E731
    if kind == "new":
        return {"op": "new", "cls": rng.choice("SSSSSVVVTT"), "c": rng.random() < pc,
                "how": rng.choice(["data", "data", "ghost"]), "dt": rng.random() < 0.25, "g": rng.randrange(2)}
    if kind == "fc":
        return {"op": "fc", "members": [s() for _ in range(rng.choice([1, 2, 2, 2, 3]))], "copy": rng.random() < 0.3,
                "c": rng.random() < 0.5 * pc, "how": rng.choice(["list", "list", "list", "dict", "tuple"])}
    if kind == "from_data":
        return {"op": "from_data", "classes": [rng.choice("SSVT") for _ in range(rng.choice([1, 2, 2, 3]))],
                "ghost": rng.random() < 0.6, "c": rng.random() < pc, "g": rng.randrange(2)}
    if kind == "from_scalars":
        return {"op": "from_scalars", "members": [s() for _ in range(3)]}
    if kind in ("data", "full", "store", "reread", "drop"):
        return {"op": kind, "h": s()}
    if kind == "member":
        return {"op": "member", "h": s(), "i": rng.randrange(8)}
    if kind == "comp":
        return {"op": "comp", "h": s(), "i": rng.randrange(6), "j": rng.randrange(6), "name": rng.random() < 0.4}
    if kind == "copy":
        return {"op": "copy", "h": s(), "c": rng.random() < 0.5 * pc, "via": rng.choice(["copy", "copy", "copy", "deepcopy", "pickle"])}
    if kind == "slice":
        return {"op": "slice", "h": s(), "a": rng.randrange(8), "b": rng.randrange(8)}
    if kind == "append":
        return {"op": "append", "h": s(), "others": [s() for _ in range(rng.choice([1, 1, 2]))]}
    if kind == "unary":
        return {"op": "unary", "h": s(), "fn": rng.choice(["neg", "neg", "real", "imag", "conj"])}
    if kind == "binary":
        return {"op": "binary", "h": s(), "fn": rng.choice(["add", "sub", "mul", "div", "pow", "add", "mul", "radd", "rsub", "rmul", "rdiv"]),
                "v": _gen_val(rng, pc), "p": rng.choice(_POWS)}
    if kind == "inplace":
        return {"op": "inplace", "h": s(), "fn": rng.choice(["iadd", "isub", "imul", "idiv", "ipow", "iadd", "isub", "imul"]),
                "v": _gen_val(rng, pc), "p": rng.choice(_POWS)}
    if kind == "write":
        return {"op": "write", "h": s(), "pos": rng.randrange(1 << 16)}
    if kind == "setitem":
        return {"op": "setitem", "h": s(), "i": rng.randrange(8), "j": rng.randrange(8), "v": _gen_val(rng, pc)}
    if kind == "setdata":
        return {"op": "setdata", "h": s(), "v": _gen_val(rng, pc)}
    if kind == "ghost":
        return {"op": "ghost", "h": s(), "bc": rng.randrange(len(_BCS))}
    if kind == "operator":
        return {"op": "operator", "h": s(), "k": rng.randrange(6), "bc": rng.choice([None, 0, 0, 1, 2, 3, 4]),
                "out": s() if rng.random() < 0.5 else None, "m": rng.random() < 0.4}
    if kind == "apply":
        return {"op": "apply", "h": s(), "fn": rng.choice(["double", "neg", "shift", "sq"]),
                "out": s() if rng.random() < 0.5 else None}
    if kind == "tconvert":
        return {"op": "tconvert", "h": s(), "form": rng.choice(["transposed", "symmetric", "anti-symmetric", "traceless"]),
                "inplace": rng.random() < 0.6}
    if kind == "ufunc":
        return {"op": "ufunc", "h": s(), "fn": rng.choice(["negative", "square", "add", "multiply"]), "v": _gen_val(rng, pc),
                "out": s() if rng.random() < 0.5 else None}
    if kind == "smooth":
        return {"op": "smooth", "h": s(), "sigma": rng.choice([0.5, 1.0, 2.0]), "out": s() if rng.random() < 0.6 else None}
    if kind == "toscalar":
        return {"op": "toscalar", "h": s(), "how": rng.choice(["auto", "comp", "comp", "norm_squared"]), "i": rng.randrange(6)}
    if kind == "interp_grid":
        return {"op": "interp_grid", "h": s(), "g": rng.randrange(2)}
    if kind == "trace":
        return {"op": "trace", "h": s()}
    if kind == "dot":
        return {"op": "dot", "h": s(), "o": s(), "out": s() if rng.random() < 0.5 else None, "conj": rng.random() < 0.5,
                "mat": rng.random() < 0.2}
    raise AssertionError(kind)


def gen_plan(rng, tier, idx):
    pc = rng.choice([0.0, 0.0, 0.3, 0.6])
    grid = _gen_grid(rng)
    n_ops = rng.randint(6, 40 if tier == "quick" else 60)
    kinds = [k for k in _OP_WEIGHTS if k in _CORE_KINDS or rng.random() < 0.78]
    single = rng.random() < 0.08
    if single:
        kinds = [k for k in kinds if k in _SINGLE_KINDS]
    weights = [_OP_WEIGHTS[k] * rng.choice([0.5, 1.0, 1.0, 2.0]) for k in kinds]
    ops = []
    n_start = rng.choice([1, 2, 2, 3])
    early_fc = rng.random() < 0.6
    for i in range(n_ops):
        if i < n_start:
            kind = "new"
        elif i == n_start and early_fc and not single:
            kind = "fc"
        else:
            kind = rng.choices(kinds, weights)[0]
        ops.append(_gen_op(rng, kind, pc))
    plan = {"property": PROPERTY, "grid": grid, "cap": _CAP, "ops": ops}
    if single:
        plan["single"] = True
    return plan


def shrink_lists(plan):
    return ["ops"]


def simplify(plan):
    def variant(fn):
        p = _copy.deepcopy(plan)
        fn(p)
        return p

    g = plan["grid"]
    # (monotone candidates only - the minimiser restarts after every accepted candidate, so no two may undo each other)
    simple = {"type": "unit", "shape": [2], "periodic": [False]}
    if g != simple:
        yield variant(lambda p: p.update(grid=simple))
    if g.get("type") in ("unit", "cart") and any(g["periodic"]):
        yield variant(lambda p: p["grid"].update(periodic=[False] * len(p["grid"]["periodic"])))
    if g.get("type") == "cart":
        yield variant(lambda p: p.update(grid={"type": "unit", "shape": g["shape"], "periodic": g["periodic"]}))
    if any(s > 2 for s in g["shape"]):
        yield variant(lambda p: p["grid"].update(shape=[2] * len(p["grid"]["shape"])))

    def real(p):
        for o in p["ops"]:
            if "c" in o:
                o["c"] = False
            if "v" in o:
                o["v"]["im"] = 0.0

    if any(o.get("c") or o.get("v", {}).get("im") for o in plan["ops"]):
        yield variant(real)
    if any(o["op"] == "new" and o["cls"] != "S" for o in plan["ops"]):
        yield variant(lambda p: [o.update(cls="S") for o in p["ops"] if o["op"] == "new"])
    if any(o["op"] == "from_data" and set(o["classes"]) != {"S"} for o in plan["ops"]):
        yield variant(lambda p: [o.update(classes=["S"] * len(o["classes"])) for o in p["ops"] if o["op"] == "from_data"])
    # per-operation simplifications (one at a time)
    for k, o in enumerate(plan["ops"]):
        if o["op"] == "new" and o["cls"] != "S":
            yield variant(lambda p, k=k: p["ops"][k].update(cls="V" if o["cls"] == "T" else "S"))
        if o["op"] == "new" and (o["how"] != "data" or o["dt"]):
            yield variant(lambda p, k=k: p["ops"][k].update(how="data", dt=False))
        if "v" in o and o["v"]["t"] != "num":
            yield variant(lambda p, k=k: p["ops"][k]["v"].update(t="num"))
        if o["op"] == "fc" and len(o["members"]) > 1:
            yield variant(lambda p, k=k: p["ops"][k].update(members=p["ops"][k]["members"][:-1]))
        if o["op"] == "from_data" and len(o["classes"]) > 1:
            yield variant(lambda p, k=k: p["ops"][k].update(classes=p["ops"][k]["classes"][:-1]))
            yield variant(lambda p, k=k: p["ops"][k].update(classes=p["ops"][k]["classes"][1:]))
        for key in ("members", "others"):
            if key in o and any(m > 3 for m in o[key]):
                yield variant(lambda p, k=k, key=key: p["ops"][k].update({key: [m % 4 for m in p["ops"][k][key]]}))
        if o["op"] == "append" and len(o["others"]) > 1:
            yield variant(lambda p, k=k: p["ops"][k].update(others=p["ops"][k]["others"][:-1]))
        if o.get("g"):
            yield variant(lambda p, k=k: p["ops"][k].update(g=0))
        if o.get("name"):
            yield variant(lambda p, k=k: p["ops"][k].update(name=False))
        if o.get("m"):
            yield variant(lambda p, k=k: p["ops"][k].update(m=False))
        if o["op"] in ("operator", "apply") and o.get("out") is not None:
            yield variant(lambda p, k=k: p["ops"][k].update(out=None))
        for key in ("h", "i", "j", "a", "b", "pos", "out"):
            if isinstance(o.get(key), int) and not isinstance(o.get(key), bool) and o[key] > 3:
                yield variant(lambda p, k=k, key=key: p["ops"][k].update({key: p["ops"][k][key] % 4}))


# ----------------------------------------------------------------------------------------------
# execution
# ----------------------------------------------------------------------------------------------


class _Stop(Exception):
    def __init__(self, klass, detail, key=None):
        super().__init__(klass)
        self.v = core.violation(klass, detail, key)


class _H:
    """One live handle: a real object plus its place in the model."""

    __slots__ = ("kind", "obj", "buf", "c0", "c1", "full", "dshape", "members", "copy_sem", "born", "compview", "storage", "hid")

    def __init__(self, kind, obj, buf, c0, c1, dshape, *, full=True, members=None, copy_sem=False, born=-1, compview=False,
                 storage=None):
        self.kind, self.obj, self.buf, self.c0, self.c1, self.dshape = kind, obj, buf, c0, c1, tuple(dshape)
        self.full, self.members, self.copy_sem, self.born, self.compview, self.storage = full, members, copy_sem, born, compview, storage
        self.hid = -1

    def desc(self):
        tag = self.kind if self.kind != "A" else ("Afull" if self.full else "Avalid")
        return f"#{self.hid}:{tag}@b{self.buf}[{self.c0}:{self.c1}]"


def _make_grid(spec):
    import pde

    t = spec["type"]
    if t == "unit":
        return pde.UnitGrid(list(spec["shape"]), periodic=list(spec["periodic"]))
    if t == "cart":
        return pde.CartesianGrid([list(b) for b in spec["bounds"]], list(spec["shape"]), periodic=list(spec["periodic"]))
    if t == "polar":
        radius = (spec["r_in"], spec["r_out"]) if spec["r_in"] > 0 else spec["r_out"]
        return pde.PolarSymGrid(radius, spec["shape"][0])
    if t == "cyl":
        radius = (spec["r_in"], spec["r_out"]) if spec["r_in"] > 0 else spec["r_out"]
        return pde.CylindricalSymGrid(radius, tuple(spec["z"]), tuple(spec["shape"]), periodic_z=bool(spec["periodic_z"]))
    raise ValueError(t)


def _ptr(a):
    return a.__array_interface__["data"][0]


def _same_memory(a, b):
    return a.shape == b.shape and a.strides == b.strides and a.dtype == b.dtype and _ptr(a) == _ptr(b)


class _Sim:
    def __init__(self, plan):
        import numpy as np
        import pde

        self.np, self.pde = np, pde
        self.plan = plan
        self.single = bool(plan.get("single"))
        self.f_dt, self.c_dt = (np.dtype(np.float32), np.dtype(np.complex64)) if self.single else (np.dtype(np.float64), np.dtype(np.complex128))
        self.grids = [_make_grid(plan["grid"]), _make_grid(plan["grid"])]
        g = self.grids[0]
        self.dim, self.nax = int(g.dim), int(g.num_axes)
        self.gshape = tuple(int(s) for s in g.shape)
        self.fshape = tuple(s + 2 for s in self.gshape)
        self.vidx = (slice(1, -1),) * self.nax
        self.gmask = np.ones(self.fshape, dtype=bool)
        self.gmask[self.vidx] = False
        self.nghost = int(self.gmask.sum())
        self.periodic = any(bool(p) for p in g.periodic)
        self.axes_names = list(g.axes) + list(g.axes_symmetric)
        self.cls = {"S": pde.ScalarField, "V": pde.VectorField, "T": pde.Tensor2Field}
        self.M = {}
        self.H = []
        self.nbuf = 0
        self.nhid = 0
        self.nextval = 1.0
        self.cap = int(plan.get("cap", _CAP))
        self.step = -1
        self.opname = "init"
        self.log = core.EventLog()
        self.stats = {"ops": {}, "noops": {}, "probes": {}, "faults": {}}
        self.alias_writes = 0

    # ---------------------------------------------------------------- small helpers
    def probe(self, name, n=1):
        self.stats["probes"][name] = self.stats["probes"].get(name, 0) + n

    def stop(self, klass, detail, key=None):
        raise _Stop(f"{klass}:{self.opname}", f"step {self.step} ({self.opname}): {detail}", key)

    def call(self, fn, what=None):
        try:
            with self.np.errstate(all="ignore"):
                return fn()
        except _Stop:
            raise
        except Exception as e:  # noqa: BLE001 - an exception of py-pde in a legal operation is a violation
            name = what or self.opname
            raise _Stop(f"exception:{name}", f"step {self.step} ({self.opname}): {type(e).__name__}: {e}") from None

    def pick(self, slot, ok=None):
        """slot number modulo the number of live handles the operation is applicable to (None if there is none)"""
        if slot is None:
            return None
        cands = self.H if ok is None else [h for h in self.H if ok(h)]
        if not cands:
            return None
        return cands[int(slot) % len(cands)]

    def dshape_of(self, kind, ncomp=None):
        if kind == "C":
            return (ncomp,)
        return (self.dim,) * _CLS_RANK[kind]

    def ncomp_of(self, kind):
        return self.dim ** _CLS_RANK[kind]

    def fresh(self, shape, cplx=False):
        np = self.np
        n = int(np.prod(shape, dtype=int)) if len(shape) else 1
        a = (np.arange(n, dtype=np.float64) + self.nextval).reshape(shape)
        self.nextval += n
        if cplx:
            a = a + 1j * (a + 0.5)
        if self.single:
            a = a.astype(self.c_dt if cplx else self.f_dt)
        return a

    def is_c(self, buf):
        return self.M[buf].dtype.kind == "c"

    def mfull(self, h):
        """Model: the padded array a handle addresses (view into the model buffer)."""
        return self.M[h.buf][h.c0:h.c1].reshape(h.dshape + self.fshape)

    def mview(self, h):
        m = self.mfull(h)
        if h.kind == "A" and not h.full:
            m = m[(Ellipsis, *self.vidx)]
        return m

    def mvalid(self, h):
        return self.mfull(h)[(Ellipsis, *self.vidx)]

    def real_of(self, h):
        return h.obj if h.kind == "A" else h.obj._data_full

    def add_handle(self, h):
        h.hid = self.nhid
        self.nhid += 1
        h.born = self.step
        self.H.append(h)
        return h

    def forget(self, h):
        self.H = [x for x in self.H if x is not h]
        h.obj = None

    def sweep_buffers(self):
        live = {h.buf for h in self.H}
        for b in [b for b in self.M if b not in live]:
            del self.M[b]

    def close(self, a, b):
        np = self.np
        if a.shape != b.shape:
            return False
        if a.dtype == b.dtype and a.tobytes() == b.tobytes():
            return True
        with np.errstate(all="ignore"):
            fa = np.isfinite(a) & (np.abs(a) < 1e300)
            fb = np.isfinite(b) & (np.abs(b) < 1e300)
            both = fa & fb
            a0 = np.where(both, a, 0)
            b0 = np.where(both, b, 0)
            ok_fin = np.abs(a0 - b0) <= 1e-9 * (np.abs(a0) + np.abs(b0)) + 1e-300
            ok = np.where(both, ok_fin, ~fa & ~fb)
        return bool(np.all(ok))

    # ---------------------------------------------------------------- model buffer creation
    def new_buffer(self, obj, dshape, pred_valid, *, exact, fill_ghost=True, pred_full=None):
        """Register the padded array of a freshly created object as a new model buffer.

        pred_valid: the model's prediction of the valid cells (shape dshape + grid shape);
        exact: compare bit for bit (through the oracle) or within tolerance (then adopt);
        pred_full: prediction of ALL cells (then nothing is filled)."""
        np = self.np
        real = obj._data_full
        dshape = tuple(dshape)
        ncomp = int(np.prod(dshape, dtype=int)) if dshape else 1
        if not isinstance(real, np.ndarray) or not real.flags.writeable:
            self.stop("not-writeable", f"the padded array of a new {type(obj).__name__} is not a writeable ndarray")
        if real.shape != dshape + self.fshape:
            self.stop("shape", f"new object has padded shape {real.shape}, expected {dshape + self.fshape}")
        pred = pred_full if pred_full is not None else pred_valid
        if real.dtype != pred.dtype:
            self.stop("dtype", f"new object has dtype {real.dtype}, expected {pred.dtype}")
        m = np.zeros((ncomp, *self.fshape), dtype=real.dtype)
        vsel = (slice(None), *self.vidx)
        if pred_full is not None:
            m[...] = pred_full.reshape((ncomp, *self.fshape))
        else:
            rv = real[(Ellipsis, *self.vidx)]
            if pred_valid.shape != rv.shape:
                self.stop("shape", f"new object has data shape {rv.shape}, expected {pred_valid.shape}")
            if exact:
                m[vsel] = pred_valid.reshape((ncomp, *self.gshape))
            else:
                if not self.close(rv, pred_valid):
                    self.stop("value", f"result differs from the model's prediction: got {rv.tolist()!r:.300} expected {pred_valid.tolist()!r:.300}")
                m[vsel] = rv.reshape((ncomp, *self.gshape))
            if fill_ghost:
                vals = self.fresh((*dshape, self.nghost), cplx=real.dtype.kind == "c")
                real[(Ellipsis, self.gmask)] = vals
                m[:, self.gmask] = vals.reshape((ncomp, self.nghost))
        bid = self.nbuf
        self.nbuf += 1
        self.M[bid] = m
        return bid

    def adopt_valid(self, h, pred_valid, what):
        """valid cells of handle h were recomputed by py-pde: compare with tolerance, adopt."""
        rv = self.real_of(h)[(Ellipsis, *self.vidx)] if not (h.kind == "A" and not h.full) else h.obj
        if rv.dtype != self.M[h.buf].dtype:
            self.stop("dtype", f"{what}: dtype of {h.desc()} changed to {rv.dtype}")
        if not self.close(rv, pred_valid.astype(rv.dtype) if pred_valid.dtype != rv.dtype else pred_valid):
            self.stop("value", f"{what}: {h.desc()} got {rv.tolist()!r:.300} expected {pred_valid.tolist()!r:.300}")
        self.mvalid(h)[...] = rv

    def adopt_ghost(self, h):
        """ghost cells of the field addressed by h were set by boundary conditions: adopt them."""
        real = self.real_of(h)
        if real.shape != h.dshape + self.fshape or real.dtype != self.M[h.buf].dtype:
            self.stop("shape", f"padded array of {h.desc()} is now {real.dtype}{real.shape}")
        self.mfull(h)[(Ellipsis, self.gmask)] = real[(Ellipsis, self.gmask)]

    # ---------------------------------------------------------------- oracle
    def first_diff(self, real, exp):
        np = self.np
        r = np.ascontiguousarray(real)
        e = np.ascontiguousarray(exp)
        rb = r.view(np.uint8).reshape(r.size, r.itemsize) if r.size else r
        eb = e.view(np.uint8).reshape(e.size, e.itemsize) if e.size else e
        bad = np.flatnonzero((rb != eb).any(axis=1))
        k = int(bad[0])
        idx = tuple(int(i) for i in np.unravel_index(k, r.shape))
        return f"{len(bad)} cell(s) differ; first at index {idx} of the handle's array (shape {r.shape}): got {r.reshape(-1)[k]!r}, model {e.reshape(-1)[k]!r}"

    def check_members(self, h):
        fc = h.obj
        n = self.call(lambda: len(fc), "len")
        if n != len(h.members):
            self.stop("collection-length", f"{h.desc()} has {n} fields, model {len(h.members)}")
        cfull = fc._data_full
        for i, (kind, c0, c1) in enumerate(h.members):
            f = self.call(lambda i=i: fc[i], "member")
            if type(f) is not self.cls[kind]:
                self.stop("collection-member-class", f"{h.desc()}[{i}] is a {type(f).__name__}, model {kind}")
            mf = f._data_full
            exp = cfull[c0:c1]
            ds = self.dshape_of(kind)
            ok = mf.shape == ds + self.fshape and mf.dtype == exp.dtype
            if ok:
                ok = _same_memory(mf, exp.reshape(ds + self.fshape))
            if not ok:
                if h.copy_sem and h.born == self.step:
                    key = "C15/collection-member-not-linked/copy_fields=True"
                else:
                    key = f"C15/collection-member-not-linked/after:{self.opname}"
                shares = bool(self.np.shares_memory(mf, cfull))
                raise _Stop(key, f"step {self.step} ({self.opname}): member {i} ({kind}) of collection {h.desc()} is not the slab "
                            f"[{c0}:{c1}] of the collection's array (shares memory with the collection: {shares}); a write "
                            "through one is not seen through the other", key)

    def oracle(self):
        np = self.np
        reals = []
        for h in self.H:
            if h.kind == "A":
                real = h.obj
            else:
                real = h.obj._data_full
                if h.kind == "C":
                    self.check_members(h)
                d = h.obj.data
                v = real[(Ellipsis, *self.vidx)]
                if not _same_memory(d, v):
                    self.stop("data-not-view", f"`data` of {h.desc()} is not the view of the valid cells of its padded array")
            exp = self.mview(h)
            if real.shape != exp.shape:
                self.stop("shape", f"{h.desc()} has shape {real.shape}, model {exp.shape}")
            if real.dtype != exp.dtype:
                self.stop("dtype", f"{h.desc()} has dtype {real.dtype}, model {exp.dtype}")
            if real.tobytes() != exp.tobytes():
                self.stop("bytes", f"{h.desc()} does not show the model's bytes: " + self.first_diff(real, exp))
            reals.append(real)
        n = len(self.H)
        for i in range(n):
            a = self.H[i]
            for j in range(i + 1, n):
                b = self.H[j]
                exp = a.buf == b.buf and a.c0 < b.c1 and b.c0 < a.c1
                got = bool(np.shares_memory(reals[i], reals[j]))
                if exp != got:
                    if exp:
                        self.stop("alias-missing", f"{a.desc()} and {b.desc()} must share memory but do not")
                    self.stop("alias-unexpected", f"{a.desc()} and {b.desc()} must be independent but share memory")

    def state_hash(self):
        hsh = hashlib.sha256()
        for b in sorted(self.M):
            m = self.M[b]
            hsh.update(f"{b}:{m.dtype.str}:{m.shape}".encode())
            hsh.update(m.tobytes())
        for h in self.H:
            hsh.update(f"{h.hid}{h.kind}{h.buf}:{h.c0}:{h.c1}:{int(h.full)}".encode())
        return hsh.hexdigest()[:16]

    # ---------------------------------------------------------------- operand values
    def operand(self, spec, target_dshape, *, allow_c, field_ok, need_exact_unique=False):
        """Resolve a value spec -> (real operand for py-pde, model value, description, handle|None).

        field_ok(h) tells whether handle h is a legal field operand; otherwise the numeric fallback is used."""
        np = self.np
        t = spec["t"]
        if t == "h":
            h = self.pick(spec["slot"], lambda h: h.kind != "A" and field_ok(h) and (allow_c or not self.is_c(h.buf)))
            if h is not None:
                return h.obj, self.mvalid(h).copy(), f"field {h.desc()}", h
            t = "num"
        if t == "arr":
            shape = (tuple(target_dshape) + self.gshape) if spec["shape"] == "data" else self.gshape
            cplx = allow_c and spec["im"] != 0.0
            if need_exact_unique:
                a = self.fresh(shape, cplx)
            else:
                rs = np.random.default_rng(int(spec["seed"]))
                a = np.round(rs.uniform(0.5, 2.0, size=shape) * 64) / 64
                if cplx:
                    a = a + 1j * (np.round(rs.uniform(-1.0, 1.0, size=shape) * 64) / 64)
            return a.copy(), a, f"array{shape}{'c' if cplx else ''}", None
        if allow_c and spec["im"] != 0.0:
            z = complex(spec["re"], spec["im"])
            return z, z, f"{z!r}", None
        return float(spec["re"]), float(spec["re"]), f"{spec['re']!r}", None

    # ---------------------------------------------------------------- operations
    def op_new(self, o):
        np = self.np
        kind = o["cls"]
        cls = self.cls[kind]
        grid = self.grids[o["g"] % 2]
        ds = self.dshape_of(kind)
        cplx = bool(o["c"])
        dtype = (self.c_dt if cplx else self.f_dt) if (o["dt"] or self.single) else None
        label = f"f{self.nhid}"
        if o["how"] == "ghost":
            arr = self.fresh(ds + self.fshape, cplx and not o["dt"])  # with dt: real data, cast by the dtype argument
            pred = arr.astype(self.c_dt) if cplx else arr
            obj = self.call(lambda: cls(grid, data=arr, label=label, dtype=dtype, with_ghost_cells=True))
            bid = self.new_buffer(obj, ds, None, exact=True, pred_full=pred.copy())
            h = self.add_handle(_H(kind, obj, bid, 0, self.ncomp_of(kind), ds))
            # the relation of the user array to the field is not documented: observe it once
            full = obj._data_full
            if _same_memory(full, arr):
                self.probe("ghost_ctor_aliases_user_array")
                self.add_handle(_H("A", arr, bid, 0, self.ncomp_of(kind), ds, full=True))
                return f"new {h.desc()} ghost user-array-aliased"
            return f"new {h.desc()} ghost user-array-{'overlaps' if np.shares_memory(full, arr) else 'copied'}"
        arr = self.fresh(ds + self.gshape, cplx and not o["dt"])
        pred = arr.astype(self.c_dt) if cplx else arr
        obj = self.call(lambda: cls(grid, data=arr, label=label, dtype=dtype))
        bid = self.new_buffer(obj, ds, pred, exact=True)
        h = self.add_handle(_H(kind, obj, bid, 0, self.ncomp_of(kind), ds))
        return f"new {h.desc()} {'c' if cplx else 'f'}"

    def _sources(self, slots, allow_collections=True):
        """Flatten handle slots into a list of data fields: (obj, kind, buf, c0, c1)."""
        out = []
        for s in slots:
            h = self.pick(s, (lambda h: h.kind != "A") if allow_collections else (lambda h: h.kind in ("S", "V", "T")))
            if h is None:
                continue
            if h.kind == "C":
                for i, (kind, c0, c1) in enumerate(h.members):
                    out.append((self.call(lambda i=i, h=h: h.obj[i], "member"), kind, h.buf, c0, c1))
            else:
                out.append((h.obj, h.kind, h.buf, h.c0, h.c1))
        return out

    def _collection_from(self, fc, srcs, dtype_forced, copy_sem):
        """Model a freshly built collection `fc` made of the fields `srcs`."""
        np = self.np
        dts = [self.M[b].dtype for (_, _, b, _, _) in srcs]
        dt = np.result_type(*dts) if not dtype_forced else np.dtype(np.complex128)
        ncomp = sum(c1 - c0 for (_, _, _, c0, c1) in srcs)
        pred = np.zeros((ncomp, *self.gshape), dtype=dt)
        members = []
        pos = 0
        for (_, kind, b, c0, c1) in srcs:
            n = c1 - c0
            pred[pos:pos + n] = self.M[b][c0:c1][(slice(None), *self.vidx)]
            members.append((kind, pos, pos + n))
            pos += n
        bid = self.new_buffer(fc, (ncomp,), pred, exact=True)
        return _H("C", fc, bid, 0, ncomp, (ncomp,), members=members, copy_sem=copy_sem), members, bid

    def op_fc(self, o):
        np = self.np
        srcs = self._sources(o["members"])[:4]
        if not srcs:
            return None
        objs = [s[0] for s in srcs]
        identical = any(objs[i] is objs[j] for i in range(len(objs)) for j in range(i))
        copy_sem = bool(o["copy"]) or identical
        if identical:
            self.probe("collection_with_identical_fields")
        forced = bool(o["c"])
        kw = {"dtype": np.complex128} if forced else {}
        how = o.get("how", "list")
        if how == "dict":  # a mapping: the keys become the labels of the fields
            arg = {f"k{i}": ob for i, ob in enumerate(objs)}
            self.probe("collection_from_mapping")
        else:
            arg = tuple(objs) if how == "tuple" else list(objs)
        fc = self.call(lambda: self.pde.FieldCollection(arg, copy_fields=bool(o["copy"]), **kw))
        hC, members, bid = self._collection_from(fc, srcs, forced, copy_sem)
        if not copy_sem:
            # the original fields now point into the collection; every other handle onto their old buffers is dropped
            old_bufs = {s[2] for s in srcs}
            if any(self.M[b].dtype != self.M[bid].dtype for b in old_bufs):
                self.probe("upcast_on_relink")
            # Only what the documentation declares unusable is dropped: a collection that lost a member to this one
            # ("a field cannot be linked to two collections") and component-view objects derived earlier (their parent
            # may have moved).  Everything else that lives on the old buffers - the vector a relinked component view
            # belongs to, the other members of the old collection, raw arrays - stays in the model: the new collection
            # gathers the data in an array of its own, so it must not alias any of them (seeded change C15-s3).
            dropped = kept = 0
            for h in list(self.H):
                k = next((k for k, ob in enumerate(objs) if h.kind != "A" and h.obj is ob), None)
                if k is not None:
                    h.buf, h.c0, h.c1 = bid, members[k][1], members[k][2]
                    h.compview = False
                elif h.buf in old_bufs:
                    if h.kind == "C":
                        # keep watching the abandoned collection's array as a raw array
                        raw = _H("A", h.obj._data_full, h.buf, h.c0, h.c1, h.dshape, full=True)
                        self.forget(h)
                        self.add_handle(raw)
                        dropped += 1
                    elif h.compview:
                        self.forget(h)
                        dropped += 1
                    else:
                        kept += 1
            if dropped:
                self.probe("relink_dropped_handle", dropped)
            if kept:
                self.probe("relink_kept_handle_on_old_buffer", kept)
        self.add_handle(hC)
        self.sweep_buffers()
        return f"fc {hC.desc()} of {[s[1] for s in srcs]} copy={copy_sem}"

    def op_from_data(self, o):
        np = self.np
        classes = list(o["classes"])
        cplx = bool(o["c"])
        grid = self.grids[o["g"] % 2]
        ncomp = sum(self.ncomp_of(k) for k in classes)
        ghost = bool(o["ghost"])
        # (complex data with with_ghost_cells=False is not generated: from_data then assigns into real fields and numpy
        # discards the imaginary part with a ComplexWarning - a value/dtype matter outside this property, reported separately)
        cplx = cplx and ghost
        data = self.fresh((ncomp, *(self.fshape if ghost else self.gshape)), cplx)
        fc = self.call(lambda: self.pde.FieldCollection.from_data([self.cls[k] for k in classes], grid, data.copy(),
                                                                  with_ghost_cells=ghost))
        got = fc._data_full.shape[0] if fc._data_full.ndim == 1 + self.nax else -1
        if got != ncomp or len(fc) != len(classes) or any(fc[i]._data_full.shape != self.dshape_of(k) + self.fshape
                                                           for i, k in enumerate(classes)):
            key = "C15/from_data/wrong-component-count/" + ("dim!=num_axes" if self.dim != self.nax else "dim==num_axes")
            raise _Stop(key, f"step {self.step} (from_data): from_data({classes}, grid dim={self.dim} num_axes={self.nax}, data with "
                        f"{ncomp} components) gave a collection with {got} components; member shapes "
                        f"{[tuple(f._data_full.shape) for f in fc]}", key)
        members, pos = [], 0
        for k in classes:
            members.append((k, pos, pos + self.ncomp_of(k)))
            pos += self.ncomp_of(k)
        if ghost:
            bid = self.new_buffer(fc, (ncomp,), None, exact=True, pred_full=data)
        else:
            bid = self.new_buffer(fc, (ncomp,), data, exact=True)
        h = self.add_handle(_H("C", fc, bid, 0, ncomp, (ncomp,), members=members))
        return f"from_data {h.desc()} {classes} ghost={ghost}"

    def op_from_scalars(self, o):
        np = self.np
        srcs = [(h.obj, h.kind, h.buf, h.c0, h.c1) for h in (self.pick(s, lambda h: h.kind == "S") for s in o["members"])
                if h is not None]
        if not srcs:
            return None
        srcs = [srcs[i % len(srcs)] for i in range(self.dim)]
        v = self.call(lambda: self.pde.VectorField.from_scalars([s[0] for s in srcs]))
        dt = np.result_type(*[self.M[s[2]].dtype for s in srcs])
        pred = np.zeros((self.dim, *self.gshape), dtype=dt)
        for i, (_, _, b, c0, _) in enumerate(srcs):
            pred[i] = self.M[b][c0][self.vidx]
        bid = self.new_buffer(v, (self.dim,), pred, exact=True)
        h = self.add_handle(_H("V", v, bid, 0, self.dim, (self.dim,)))
        return f"from_scalars {h.desc()}"

    def op_data(self, o, full=False):
        h = self.pick(o["h"], lambda h: h.kind != "A")
        if h is None:
            return None
        arr = self.call(lambda: h.obj._data_full if full else h.obj.data)
        if not isinstance(arr, self.np.ndarray):
            self.stop("shape", f"{'_data_full' if full else 'data'} of {h.desc()} is a {type(arr).__name__}")
        n = self.add_handle(_H("A", arr, h.buf, h.c0, h.c1, h.dshape, full=full, compview=h.compview))
        return f"{'full' if full else 'data'} {n.desc()} of {h.desc()}"

    def op_full(self, o):
        return self.op_data(o, full=True)

    def op_member(self, o):
        h = self.pick(o["h"], lambda h: h.kind == "C")
        if h is None:
            return None
        i = o["i"] % len(h.members)
        kind, c0, c1 = h.members[i]
        f = self.call(lambda: h.obj[i])
        if type(f) is not self.cls[kind]:
            self.stop("collection-member-class", f"{h.desc()}[{i}] is a {type(f).__name__}, model {kind}")
        n = self.add_handle(_H(kind, f, h.buf, c0, c1, self.dshape_of(kind)))
        return f"member {n.desc()} = {h.desc()}[{i}]"

    def op_comp(self, o):
        h = self.pick(o["h"], lambda h: h.kind in ("V", "T"))
        if h is None:
            return None
        i, j = o["i"] % self.dim, o["j"] % self.dim
        ki = self.axes_names[i] if o["name"] and i < len(self.axes_names) else i
        kj = self.axes_names[j] if o["name"] and j < len(self.axes_names) else j
        if h.kind == "V":
            f = self.call(lambda: h.obj[ki])
            c = h.c0 + i
        else:
            f = self.call(lambda: h.obj[ki, kj])
            c = h.c0 + i * self.dim + j  # row-major
        if type(f) is not self.cls["S"]:
            self.stop("component-class", f"component of {h.desc()} is a {type(f).__name__}")
        n = self.add_handle(_H("S", f, h.buf, c, c + 1, (), compview=True))
        return f"comp {n.desc()} = {h.desc()}[{ki!r}{',' + repr(kj) if h.kind == 'T' else ''}]"

    def _register_result(self, obj, kind, members, pred_valid, *, exact, copy_sem=False, storage=None):
        """A new, independent object of the given kind (collection layout from `members`)."""
        if kind == "C":
            ncomp = members[-1][2]
            if type(obj) is not self.pde.FieldCollection:
                self.stop("result-class", f"result is a {type(obj).__name__}, expected FieldCollection")
            bid = self.new_buffer(obj, (ncomp,), pred_valid.reshape((ncomp, *self.gshape)), exact=exact)
            return self.add_handle(_H("C", obj, bid, 0, ncomp, (ncomp,), members=list(members), copy_sem=copy_sem, storage=storage))
        if type(obj) is not self.cls[kind]:
            self.stop("result-class", f"result is a {type(obj).__name__}, expected {self.cls[kind].__name__}")
        ds = self.dshape_of(kind)
        bid = self.new_buffer(obj, ds, pred_valid.reshape(ds + self.gshape), exact=exact)
        return self.add_handle(_H(kind, obj, bid, 0, self.ncomp_of(kind), ds, storage=storage))

    def _members0(self, h):
        """member layout of h relative to a new buffer holding just h's region"""
        if h.kind == "C":
            return [(k, c0 - h.c0, c1 - h.c0) for (k, c0, c1) in h.members]
        return None

    def op_copy(self, o):
        np = self.np
        h = self.pick(o["h"], lambda h: h.kind != "A")
        if h is None:
            return None
        via = o.get("via", "copy")
        to_c = bool(o["c"]) and via == "copy"
        kw = {"dtype": self.c_dt} if to_c else {}
        if via == "deepcopy":
            import copy as _copy

            r = self.call(lambda: _copy.deepcopy(h.obj))
            self.probe("copy_via_deepcopy")
        elif via == "pickle":
            import pickle as _pickle

            r = self.call(lambda: _pickle.loads(_pickle.dumps(h.obj)))
            self.probe("copy_via_pickle")
        else:
            r = self.call(lambda: h.obj.copy(**kw))
        pred = self.mvalid(h).copy()
        if to_c:
            pred = pred.astype(self.c_dt)
        n = self._register_result(r, h.kind, self._members0(h), pred, exact=True)
        return f"copy({via}) {n.desc()} of {h.desc()}"

    def op_slice(self, o):
        h = self.pick(o["h"], lambda h: h.kind == "C")
        if h is None:
            return None
        nm = len(h.members)
        a = o["a"] % nm
        b = a + 1 + o["b"] % (nm - a)
        r = self.call(lambda: h.obj[a:b])
        sel = h.members[a:b]
        base = sel[0][1]
        members = [(k, c0 - base, c1 - base) for (k, c0, c1) in sel]
        pred = self.M[h.buf][sel[0][1]:sel[-1][2]][(slice(None), *self.vidx)].copy()
        n = self._register_result(r, "C", members, pred, exact=True, copy_sem=True)
        return f"slice {n.desc()} = {h.desc()}[{a}:{b}]"

    def op_append(self, o):
        np = self.np
        h = self.pick(o["h"], lambda h: h.kind == "C")
        if h is None:
            return None
        others = [x for x in (self.pick(s, lambda h: h.kind != "A") for s in o["others"]) if x is not None]
        if not others:
            return None
        members = list(h.members)
        parts = [self.M[h.buf][(slice(None), *self.vidx)]]
        pos = members[-1][2]
        for x in others:
            xm = x.members if x.kind == "C" else [(x.kind, x.c0, x.c1)]
            for (k, c0, c1) in xm:
                members.append((k, pos, pos + c1 - c0))
                pos += c1 - c0
                parts.append(self.M[x.buf][c0:c1][(slice(None), *self.vidx)])
        if pos > 40:
            return None
        dt = np.result_type(*[p.dtype for p in parts])
        pred = np.concatenate([p.astype(dt) for p in parts], axis=0)
        r = self.call(lambda: h.obj.append(*[x.obj for x in others]))
        n = self._register_result(r, "C", members, pred, exact=True, copy_sem=True)
        return f"append {n.desc()} = {h.desc()}+{[x.desc() for x in others]}"

    def op_unary(self, o):
        np = self.np
        h = self.pick(o["h"], lambda h: h.kind != "A")
        if h is None:
            return None
        fn = o["fn"]
        obj = h.obj
        if fn == "neg":
            r, pred = self.call(lambda: -obj), np.negative(self.mvalid(h))
        elif fn == "real":
            r, pred = self.call(lambda: obj.real), np.array(np.real(self.mvalid(h)))
        elif fn == "imag":
            r, pred = self.call(lambda: obj.imag), np.array(np.imag(self.mvalid(h)))
        else:
            r, pred = self.call(lambda: obj.conjugate()), np.conjugate(self.mvalid(h))
        n = self._register_result(r, h.kind, self._members0(h), np.ascontiguousarray(pred), exact=True)
        return f"unary {fn} {n.desc()} of {h.desc()}"

    def _field_ok_binary(self, a, fn):
        """which field operands are documented-legal on the right of `a <fn> b`"""
        if fn in ("div", "idiv"):
            return lambda b: b.kind == "S"
        if fn in ("add", "sub", "mul"):
            if a.kind == "S":
                return lambda b: True  # left scalar field, right anything (result has the class of the right operand)
            if a.kind == "C":
                return lambda b: b.kind == "S" or (b.kind == "C" and [m[0] for m in b.members] == [m[0] for m in a.members])
            return lambda b: b.kind in ("S", a.kind)
        if fn in ("iadd", "isub", "imul"):
            if a.kind == "C":
                return lambda b: b.kind == "S" or (b.kind == "C" and [m[0] for m in b.members] == [m[0] for m in a.members])
            return lambda b: b.kind in ("S", a.kind)
        return lambda b: False

    def op_binary(self, o):
        np = self.np
        a = self.pick(o["h"], lambda h: h.kind != "A")
        if a is None:
            return None
        fn = o["fn"]
        av = self.mvalid(a).copy()
        ufn = {"add": np.add, "sub": np.subtract, "mul": np.multiply, "div": np.true_divide}
        with np.errstate(all="ignore"):
            if fn == "pow":
                p = float(o["p"])
                r = self.call(lambda: a.obj ** p)
                pred, desc, b = np.power(av, p), repr(p), None
            elif fn in ("radd", "rsub", "rmul", "rdiv"):
                spec = dict(o["v"], t="num")
                x, xm, desc, b = self.operand(spec, a.dshape, allow_c=True, field_ok=lambda b: False)
                pyop = {"radd": _operator.add, "rsub": _operator.sub, "rmul": _operator.mul, "rdiv": _operator.truediv}[fn]
                r = self.call(lambda: pyop(x, a.obj))
                pred = ufn[fn[1:]](xm, av)
            else:
                x, xm, desc, b = self.operand(o["v"], a.dshape, allow_c=True, field_ok=self._field_ok_binary(a, fn))
                pyop = {"add": _operator.add, "sub": _operator.sub, "mul": _operator.mul, "div": _operator.truediv}[fn]
                r = self.call(lambda: pyop(a.obj, x))
                pred = ufn[fn](av, xm)
        cls_h = b if (b is not None and a.kind == "S" and b.kind != "S") else a
        n = self._register_result(r, cls_h.kind, self._members0(cls_h), np.ascontiguousarray(pred), exact=False)
        return f"binary {n.desc()} = {a.desc()} {fn} {desc}"

    def op_inplace(self, o):
        np = self.np
        a = self.pick(o["h"], lambda h: h.kind != "A")
        if a is None:
            return None
        fn = o["fn"]
        ac = self.is_c(a.buf)
        av = self.mvalid(a).copy()
        with np.errstate(all="ignore"):
            if fn == "ipow":
                p = float(o["p"])
                r = self.call(lambda: _operator.ipow(a.obj, p))
                pred, desc, b = np.power(av, p), repr(p), None
            else:
                x, xm, desc, b = self.operand(o["v"], a.dshape, allow_c=ac, field_ok=self._field_ok_binary(a, fn))
                pyop = {"iadd": _operator.iadd, "isub": _operator.isub, "imul": _operator.imul, "idiv": _operator.itruediv}[fn]
                ufn = {"iadd": np.add, "isub": np.subtract, "imul": np.multiply, "idiv": np.true_divide}[fn]
                pred = ufn(av, xm)
                r = self.call(lambda: pyop(a.obj, x))
        if r is not a.obj:
            self.stop("identity", f"in-place {fn} on {a.desc()} returned another object ({type(r).__name__})")
        if a.kind == "C" or (b is not None and b.kind == "C"):
            self.probe("inplace_with_collection")
        if b is not None and b.buf == a.buf and a.c0 < b.c1 and b.c0 < a.c1:
            self.probe("inplace_operand_aliases_target")
        self.adopt_valid(a, np.ascontiguousarray(pred), f"in-place {fn} {desc}")
        return f"inplace {a.desc()} {fn} {desc}"

    def op_write(self, o):
        np = self.np
        h = self.pick(o["h"])
        if h is None:
            return None
        if h.kind == "A":
            target, mv = h.obj, self.mview(h)
            is_full = h.full
        else:
            target, mv = self.call(lambda: h.obj.data), self.mvalid(h)
            is_full = False
        idx = tuple(int(i) for i in np.unravel_index(o["pos"] % mv.size, mv.shape))
        val = 1.0e6 + self.step
        if self.is_c(h.buf):
            val = complex(val, val + 0.5)
        nd = len(h.dshape)
        comp = h.c0 + (int(np.ravel_multi_index(idx[:nd], h.dshape)) if nd else 0)
        cell = idx[nd:] if is_full else tuple(i + 1 for i in idx[nd:])
        on_ghost = bool(self.gmask[cell])
        covering = [x for x in self.H if x is not h and x.buf == h.buf and x.c0 <= comp < x.c1
                    and not (on_ghost and x.kind == "A" and not x.full)]
        if not isinstance(target, np.ndarray) or target.shape != mv.shape or not target.flags.writeable:
            self.stop("shape", f"array behind {h.desc()} is not a writeable ndarray of shape {mv.shape}")
        target[idx] = val
        mv[idx] = val
        if covering:
            self.alias_writes += 1
            self.probe("write_seen_through_alias")
            if h.compview or any(x.compview for x in covering):
                self.probe("component_view_write")
            if (h.kind == "C" and any(x.kind in ("S", "V", "T") for x in covering)) or \
                    (h.kind in ("S", "V", "T") and any(x.kind == "C" for x in covering)):
                self.probe("write_collection_member_pair")
        if on_ghost:
            self.probe("ghost_cell_write_via_full_array")
        return f"write {h.desc()}{list(idx)} = {val!r} seen_by={len(covering)}"

    def op_setitem(self, o):
        h = self.pick(o["h"], lambda h: h.kind in ("C", "V", "T"))
        if h is None:
            return None
        hc = self.is_c(h.buf)
        if h.kind == "C":
            i = o["i"] % len(h.members)
            kind, c0, c1 = h.members[i]
            ds = self.dshape_of(kind)
            x, xm, desc, _ = self.operand(o["v"], ds, allow_c=hc, field_ok=lambda b, kind=kind: b.kind in ("S", kind),
                                          need_exact_unique=True)
            self.call(lambda: h.obj.__setitem__(i, x))
            tgt = self.M[h.buf][c0:c1].reshape(ds + self.fshape)[(Ellipsis, *self.vidx)]
            tgt[...] = xm
            return f"setitem {h.desc()}[{i}] = {desc}"
        i, j = o["i"] % self.dim, o["j"] % self.dim
        x, xm, desc, _ = self.operand(o["v"], (), allow_c=hc, field_ok=lambda b: b.kind == "S", need_exact_unique=True)
        if h.kind == "V":
            self.call(lambda: h.obj.__setitem__(i, x))
            c = h.c0 + i
        else:
            self.call(lambda: h.obj.__setitem__((i, j), x))
            c = h.c0 + i * self.dim + j
        self.M[h.buf][c][self.vidx] = xm
        return f"setitem {h.desc()}[{i}{',' + str(j) if h.kind == 'T' else ''}] = {desc}"

    def op_setdata(self, o):
        h = self.pick(o["h"], lambda h: h.kind != "A")
        if h is None:
            return None
        hc = self.is_c(h.buf)
        if h.kind == "C":
            ok = lambda b: b.kind == "S" or (b.kind == "C" and [m[0] for m in b.members] == [m[0] for m in h.members])  # noqa: E731
        else:
            ok = lambda b: b.kind in ("S", h.kind)  # noqa: E731
        x, xm, desc, _ = self.operand(o["v"], h.dshape, allow_c=hc, field_ok=ok, need_exact_unique=True)

        def assign():
            h.obj.data = x

        self.call(assign)
        self.mvalid(h)[...] = xm
        return f"setdata {h.desc()}.data = {desc}"

    def _bc(self, k):
        bc = _BCS[k % len(_BCS)]
        if isinstance(bc, dict) and self.periodic:
            bc = _BCS[0]
        return bc

    def op_ghost(self, o):
        h = self.pick(o["h"], lambda h: h.kind in ("S", "V", "T"))
        if h is None:
            return None
        bc = self._bc(o["bc"])
        self.call(lambda: h.obj.set_ghost_cells(bc))
        self.adopt_ghost(h)
        return f"ghost {h.desc()} bc={bc!r}"

    def op_operator(self, o):
        np = self.np
        h = self.pick(o["h"], lambda h: h.kind in ("S", "V", "T"))
        if h is None:
            return None
        grid = self.grids[0]
        # (`grid.operators` is slow - it walks all backends; the only gap among the grids used here is known)
        avail = [t for t in _OPERATORS[h.kind] if not (t[0] == "vector_laplace" and self.plan["grid"]["type"] == "polar")]
        name, out_kind, meth = avail[o["k"] % len(avail)]
        bc = None if o["bc"] is None else self._bc(o["bc"])
        out = self.pick(o.get("out"), lambda x: x.kind == out_kind and x.buf != h.buf and self.M[x.buf].dtype == self.M[h.buf].dtype)
        out_obj = out.obj if out is not None else None
        if o["m"]:
            r = self.call(lambda: getattr(h.obj, meth)(bc=bc, out=out_obj))
        else:
            r = self.call(lambda: h.obj.apply_operator(name, bc=bc, out=out_obj))
        if bc is not None:
            self.adopt_ghost(h)  # the operator imposes the boundary conditions on its operand first
        if h.compview or any(x is not h and x.buf == h.buf for x in self.H):
            self.probe("operator_on_view")
        # reference: the same operator on an independent field built from the model's bytes
        src = self.mfull(h).copy()
        ref_in = self.call(lambda: self.cls[h.kind](grid, data=src, with_ghost_cells=True), "operator-reference")
        ref = self.call(lambda: ref_in.apply_operator(name, bc=None), "operator-reference")
        pred = np.ascontiguousarray(ref.data)
        if out is not None:
            self.probe("out_argument")
            if r is not out.obj:
                self.stop("identity", f"apply_operator(out=...) returned another object than `out` ({type(r).__name__})")
            self.adopt_valid(out, pred, f"operator {name} out=")
            return f"operator {name} {h.desc()} bc={bc!r} out={out.desc()}"
        n = self._register_result(r, out_kind, None, pred, exact=False)
        return f"operator {name} {h.desc()} bc={bc!r} -> {n.desc()}"

    def op_apply(self, o):
        np = self.np
        h = self.pick(o["h"], lambda h: h.kind != "A")
        if h is None:
            return None
        funcs = {"double": lambda x: x * 2, "neg": np.negative, "shift": lambda x: x + 1, "sq": lambda x: x * x}
        f = funcs[o["fn"]]

        def out_ok(x):
            same_layout = x.kind == h.kind and (h.kind != "C" or [m[0] for m in x.members] == [m[0] for m in h.members])
            dt_ok = self.M[x.buf].dtype == self.M[h.buf].dtype or self.is_c(x.buf)
            overlap_ok = x.buf != h.buf or (x.c0, x.c1) == (h.c0, h.c1) or x.c1 <= h.c0 or h.c1 <= x.c0
            return same_layout and dt_ok and overlap_ok

        out = self.pick(o.get("out"), out_ok)
        with np.errstate(all="ignore"):
            pred = np.ascontiguousarray(f(self.mvalid(h).copy()))
        if out is not None:
            self.probe("out_argument")
            r = self.call(lambda: h.obj.apply(f, out=out.obj))
            if r is not out.obj:
                self.stop("identity", f"apply(out=...) returned another object than `out` ({type(r).__name__})")
            self.adopt_valid(out, pred, f"apply {o['fn']} out=")
            return f"apply {o['fn']} {h.desc()} out={out.desc()}"
        r = self.call(lambda: h.obj.apply(f))
        n = self._register_result(r, h.kind, self._members0(h), pred, exact=False)
        return f"apply {o['fn']} {h.desc()} -> {n.desc()}"

    def op_tconvert(self, o):
        np = self.np
        h = self.pick(o["h"], lambda h: h.kind == "T")
        if h is None:
            return None
        form, inplace = o["form"], bool(o["inplace"])
        t = self.mvalid(h).copy()
        tt = np.swapaxes(t, 0, 1)
        if form == "transposed":
            pred = tt.copy()
        elif form == "symmetric":
            pred = (t + tt) * 0.5
        elif form == "anti-symmetric":
            pred = (t - tt) * 0.5
        else:
            pred = t.copy()
            tr = np.trace(t, axis1=0, axis2=1)
            for i in range(self.dim):
                pred[i, i] -= tr / self.dim
        if form == "transposed":
            r = self.call(lambda: h.obj.transpose(inplace=inplace))
        elif form == "symmetric":
            r = self.call(lambda: h.obj.symmetrize(inplace=inplace))
        else:
            r = self.call(lambda: h.obj.convert(form, inplace=inplace))
        pred = np.ascontiguousarray(pred)
        if inplace:
            if r is not h.obj:
                self.stop("identity", f"convert({form!r}, inplace=True) on {h.desc()} returned another object")
            self.adopt_valid(h, pred, f"convert {form} in place")
            return f"tconvert {form} in place {h.desc()}"
        n = self._register_result(r, "T", None, pred, exact=False)
        return f"tconvert {form} {h.desc()} -> {n.desc()}"

    def op_ufunc(self, o):
        np = self.np
        h = self.pick(o["h"], lambda h: h.kind == "S")
        if h is None:
            return None
        fn = o["fn"]
        ufn = getattr(np, fn)
        av = self.mvalid(h).copy()
        if fn in ("negative", "square"):
            args, margs, desc = (h.obj,), (av,), ""
        else:
            spec = dict(o["v"], shape="grid")
            x, xm, desc, _ = self.operand(spec, (), allow_c=True, field_ok=lambda b: b.kind == "S")
            args, margs = (h.obj, x), (av, xm)
        with np.errstate(all="ignore"):
            pred = np.ascontiguousarray(ufn(*margs))
        out = self.pick(o.get("out"), lambda x: x.kind == "S" and (self.M[x.buf].dtype == pred.dtype or self.is_c(x.buf)))
        if out is not None:
            self.probe("out_argument")
            r = self.call(lambda: ufn(*args, out=out.obj))
            if r is not out.obj:
                self.stop("identity", f"np.{fn}(..., out=field) returned another object than `out` ({type(r).__name__})")
            self.adopt_valid(out, pred, f"ufunc {fn} out=")
            return f"ufunc {fn} {h.desc()} {desc} out={out.desc()}"
        r = self.call(lambda: ufn(*args))
        n = self._register_result(r, "S", None, pred, exact=False)
        return f"ufunc {fn} {h.desc()} {desc} -> {n.desc()}"

    def op_smooth(self, o):
        np = self.np
        h = self.pick(o["h"], lambda h: h.kind != "A" and not self.is_c(h.buf))
        if h is None:
            return None
        sigma = float(o["sigma"])

        def out_ok(x):
            same_layout = x.kind == h.kind and (h.kind != "C" or [m[0] for m in x.members] == [m[0] for m in h.members])
            place_ok = x.buf != h.buf or (x.c0, x.c1) == (h.c0, h.c1)
            return same_layout and place_ok and not self.is_c(x.buf)

        out = self.pick(o.get("out"), out_ok)
        # reference: the same call on an independent object built from the model's bytes
        if h.kind == "C":
            parts = [self.cls[k](self.grids[0], data=self.M[h.buf][c0:c1].reshape(self.dshape_of(k) + self.fshape).copy(),
                                 with_ghost_cells=True) for (k, c0, c1) in h.members]
            ref_in = self.call(lambda: self.pde.FieldCollection(parts), "smooth-reference")
        else:
            ref_in = self.call(lambda: self.cls[h.kind](self.grids[0], data=self.mfull(h).copy(), with_ghost_cells=True),
                               "smooth-reference")
        ref = self.call(lambda: ref_in.smooth(sigma), "smooth-reference")
        pred = np.ascontiguousarray(ref.data)
        if out is not None:
            self.probe("out_argument")
            r = self.call(lambda: h.obj.smooth(sigma, out=out.obj))
            if r is not out.obj:
                self.stop("identity", f"smooth(out=...) returned another object than `out` ({type(r).__name__})")
            self.adopt_valid(out, pred, "smooth out=")
            return f"smooth {h.desc()} sigma={sigma} out={out.desc()}"
        r = self.call(lambda: h.obj.smooth(sigma))
        n = self._register_result(r, h.kind, self._members0(h), pred, exact=False)
        return f"smooth {h.desc()} sigma={sigma} -> {n.desc()}"

    def op_toscalar(self, o):
        np = self.np
        h = self.pick(o["h"], lambda h: h.kind in ("S", "V"))
        if h is None:
            return None
        av = self.mvalid(h).copy()
        how = o["how"]
        exact = False
        with np.errstate(all="ignore"):
            if h.kind == "S":
                if how == "norm_squared":
                    arg, pred = "norm_squared", av * av.conj()
                else:
                    arg = "auto"
                    if self.is_c(h.buf):
                        pred = np.abs(av)
                    else:
                        pred, exact = av, True  # documented: an (unchanged) copy of a real field
            else:
                if how == "norm_squared":
                    arg, pred = "norm_squared", np.sum(av * av.conj(), axis=0)
                else:
                    arg = o["i"] % self.dim
                    pred, exact = av[arg], True  # the selected component
        r = self.call(lambda: h.obj.to_scalar(arg))
        n = self._register_result(r, "S", None, np.ascontiguousarray(pred), exact=exact)
        return f"toscalar {arg!r} {h.desc()} -> {n.desc()}"

    def op_interp_grid(self, o):
        """interpolate_to_grid onto the same or an equal grid: the values of the cell centres, in a NEW field."""
        cart = self.plan["grid"].get("type") in ("unit", "cart")
        # (rank-2 tensors cannot be interpolated - documented NotImplementedError - also not inside a collection)
        h = self.pick(o["h"], lambda h: h.kind == "S" or (cart and (h.kind == "V" or (h.kind == "C" and all(m[0] != "T" for m in h.members)))))
        if h is None:
            return None
        grid = self.grids[o["g"] % 2]
        r = self.call(lambda: h.obj.interpolate_to_grid(grid))
        # what is decided here is that the result is a new, independent object of the right class and layout; the VALUES of
        # an interpolation are another property's business (non-finite neighbours legitimately spread NaN): adopt them
        got = getattr(r, "data", None)
        if not isinstance(got, self.np.ndarray) or got.shape != self.mvalid(h).shape:
            self.stop("shape", f"interpolate_to_grid of {h.desc()} returned data of shape {getattr(got, 'shape', None)}")
        n = self._register_result(r, h.kind, self._members0(h), self.np.array(got, copy=True).astype(self.M[h.buf].dtype, copy=False), exact=False)
        self.probe("interpolate_to_equal_grid")
        return f"interp_grid {h.desc()} -> {n.desc()}"

    def op_trace(self, o):
        np = self.np
        h = self.pick(o["h"], lambda h: h.kind == "T")
        if h is None:
            return None
        r = self.call(lambda: h.obj.trace())
        pred = np.ascontiguousarray(np.trace(self.mvalid(h), axis1=0, axis2=1))
        n = self._register_result(r, "S", None, pred, exact=False)
        return f"trace {h.desc()} -> {n.desc()}"

    def op_dot(self, o):
        np = self.np
        a = self.pick(o["h"], lambda h: h.kind in ("V", "T"))
        b = self.pick(o["o"], lambda h: h.kind in ("V", "T"))
        if a is None or b is None:
            return None
        conj = bool(o["conj"])
        av, bv = self.mvalid(a).copy(), self.mvalid(b).copy()
        if conj:
            bv = bv.conj()
        if a.kind == "V":
            out_kind = "S" if b.kind == "V" else "V"
            pred = np.einsum("i...,i...->...", av, bv)
        else:
            out_kind = b.kind
            pred = np.einsum("ij...,j...->i...", av, bv)
        cdt = np.dtype(np.complex128) if (self.is_c(a.buf) or self.is_c(b.buf)) else np.dtype(np.float64)
        pred = np.ascontiguousarray(pred.astype(cdt))
        out = self.pick(o.get("out"), lambda x: x.kind == out_kind and x.buf not in (a.buf, b.buf) and self.M[x.buf].dtype == cdt)
        if out is not None:
            self.probe("out_argument")
            r = self.call(lambda: a.obj.dot(b.obj, out=out.obj, conjugate=conj))
            if r is not out.obj:
                self.stop("identity", f"dot(out=...) returned another object than `out` ({type(r).__name__})")
            self.adopt_valid(out, pred, "dot out=")
            return f"dot {a.desc()} . {b.desc()} out={out.desc()}"
        if o["mat"] and conj:
            r = self.call(lambda: a.obj @ b.obj)
        else:
            r = self.call(lambda: a.obj.dot(b.obj, conjugate=conj))
        n = self._register_result(r, out_kind, None, pred, exact=False)
        return f"dot {a.desc()} . {b.desc()} -> {n.desc()}"

    def op_store(self, o):
        h = self.pick(o["h"], lambda h: h.kind != "A")
        if h is None:
            return None
        st = self.pde.MemoryStorage()

        def write():
            st.start_writing(h.obj)
            st.append(h.obj, 0.0)
            st.end_writing()
            return st[0]

        r = self.call(write)
        snap = self.mvalid(h).copy()
        n = self._register_result(r, h.kind, self._members0(h), snap, exact=True, storage=(st, snap))
        return f"store {h.desc()} -> {n.desc()}"

    def op_reread(self, o):
        h = self.pick(o["h"], lambda h: h.storage is not None)
        if h is None:
            return None
        st, snap = h.storage
        r = self.call(lambda: st[0])
        self.probe("storage_reread")
        n = self._register_result(r, h.kind, self._members0(h), snap.copy(), exact=True, storage=(st, snap))
        return f"reread storage of {h.desc()} -> {n.desc()}"

    def op_drop(self, o):
        h = self.pick(o["h"])
        if h is None:
            return None
        d = h.desc()
        self.forget(h)
        del h
        self.sweep_buffers()
        gc.collect()
        return f"drop {d}"

    # ---------------------------------------------------------------- main loop
    def run(self):
        ops = self.plan["ops"]
        if self.single:
            self.probe("single_precision_plan")
        for k, o in enumerate(ops):
            self.step = k
            self.opname = o["op"]
            res = getattr(self, "op_" + o["op"])(o)
            bucket = "ops" if res is not None else "noops"
            self.stats[bucket][o["op"]] = self.stats[bucket].get(o["op"], 0) + 1
            self.sweep_buffers()
            self.oracle()  # on all handles, including the operands of this step
            # keep the number of live handles bounded: forget the oldest ones (never one created in this step)
            while len(self.H) > self.cap:
                old = next((h for h in self.H if h.born != self.step), None)
                if old is None:
                    break
                self.forget(old)
            self.sweep_buffers()
            self.log.add(k, o["op"], res if res is not None else "noop", len(self.H), self.state_hash())


def execute(plan):
    gc.freeze()  # what exists before the run is not scanned by the gc.collect() of "drop" operations (speed only)
    try:
        sim = _Sim(plan)
        viol = None
        try:
            sim.run()
        except _Stop as s:
            viol = s.v
            sim.log.add(sim.step, "VIOLATION", viol["class"], viol["detail"][:300])
    finally:
        gc.unfreeze()
    sim.log.add("end", len(sim.H), sim.alias_writes)
    stats = sim.stats
    stats["probes"]["runs_with_alias_write"] = int(sim.alias_writes > 0)
    return {
        "violation": viol,
        "digest": sim.log.digest(),
        "stats": stats,
        "nontrivial": sim.alias_writes > 0,
        "sig": core.digest_of([plan["grid"], plan["ops"]]),
        "sim_time": 0.0,
        "sched_steps": sim.step + 1,
        "events_head": sim.log.head[:60],
    }
