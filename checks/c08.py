"""C08 - trackers fire exactly once per scheduled time, in order, even when stopping.
Engine: controller-sim (sim/controller_sim.py); DESIGN.md 4.4."""

from sim import controller_sim as cs

PROPERTY = "C08"
ISOLATE = True
TIERS = {
    "quick": {"runs": 6000, "budget_s": 150, "timeout_s": 120, "chunk": 16, "det_sample": 48, "det_runs": 300},
    "thorough": {"runs": 120000, "budget_s": 1500, "timeout_s": 120, "chunk": 16, "det_sample": 64, "det_runs": 1000},
}
RULE = ("seeded plans: (solver, backend, fixed/adaptive, dt, t_start, range, equation, 1-5 real tracker objects each with a "
        "constant/fixed/logarithmic/geometric/realtime interrupt, simulated wall-clock profile, 0-3 stop faults); a plan is "
        "non-trivial if at least one tracker has an interval that is not an integer multiple of dt (or a non-constant "
        "schedule) or a fault actually fired; distinct = distinct (solver, backend, trackers, faults, range, dt, t_start)")
PROBES = ["probes/stops", "probes/stop_at_t_start", "probes/stop_in_final_handle", "probes/two_plus_due_at_stop",
          "probes/two_raisers_same_round", "probes/tracker_served_after_raiser_in_same_round",
          "probes/served_early_by_half_step_rule", "probes/adaptive_multi_const_trackers",
          "faults/fired_StopIteration", "faults/fired_FinishedSimulation", "faults/fired_nan",
          "faults/clock_zero_advance_reads", "faults/clock_jumps"]
COMPONENTS = {
    "real": ["pde.solvers.controller.Controller", "pde.trackers.base.TrackerCollection", "all tracker classes used",
             "pde.trackers.interrupts.*", "pde.storage.memory.MemoryStorage + StorageTracker",
             "solvers euler/runge-kutta/implicit/crank-nicolson/adams-bashforth (+adaptive euler/runge-kutta)",
             "backends numpy and numba (python mode: same source executed by CPython)"],
    "stub": ["wall clock (SimClock replaces module `time` in pde.trackers.interrupts, pde.trackers.trackers, "
             "pde.solvers.controller and Controller._get_current_time)", "tqdm output (TQDM_DISABLE=1)",
             "LLVM code generation (NUMBA_DISABLE_JIT=1)"],
    "client_code": ["LinearEq du/dt=a*u+b*cos(w*t) on 1-3 cells", "DiffusionPDE on 4-6 cells"],
}
ASSUMPTIONS = [
    "max(|t_start|,|t_end|)/dt <= ~1e5 so that accumulated round-off of simulation time stays far below 1e-6*dt",
    "N <= 2000 steps, <= 5 trackers, tiny grids (the run loop does not depend on the grid size)",
    "numba backend exercised in python mode (NUMBA_DISABLE_JIT=1); compiled mode only in the JIT sample",
    "a stop fault is a StopIteration/FinishedSimulation raised by a tracker's handle (after the real handle ran, or from "
    "the user callback of a CallbackTracker); NaN faults only with cell-local equations",
]


def prepare():
    from sim.prewarm import prewarm_pde

    prewarm_pde()


def gen_plan(rng, tier, idx):
    return cs.gen_plan(rng, tier, idx, PROPERTY)


def execute(plan):
    return cs.execute(plan)


def shrink_lists(plan):
    return ["faults", "trackers"]


def simplify(plan):
    yield from cs.simplify(plan)


def post_batch(tier, seed, agg):
    """Thorough tier: a sample of the same plans with real numba compilation of the stepping loops."""
    import os

    if tier != "thorough" and not os.environ.get("VERIF_JIT"):
        return None
    from sim.core import jit_sample
    import sys

    return jit_sample(sys.modules[__name__], seed, runs=64, budget_s=400, timeout_s=600)
