"""C17 - splitting a grid into sub-grids changes nothing.
Engine: mpi-sim (sim/ranks.py + sim/fakes); DESIGN.md 4.8.

The real GridMesh / _MPIBC / NumbaMPIBackend / ExplicitMPISolver / Controller._run_parallel code is
run by 2-6 simulated MPI ranks over a fake mpi4py whose every call is scheduled by the seeded
simulator (who runs next, message delays and hence cross-channel reordering, rank stalls right
after a rank sent its ghost cells).  Oracle: the combined result equals the serial computation on
the undivided grid for every schedule; no deadlock under eager sends; every message received
exactly once; the mesh tiles the grid; neighbour relations are symmetric.
"""

from __future__ import annotations

import copy
import itertools
import os
import sys

import numpy as np

from sim.core import ROOT, EventLog, digest_of, violation

PROPERTY = "C17"
ISOLATE = True
TIERS = {
    "quick": {"runs": 2400, "budget_s": 180, "timeout_s": 90, "chunk": 8, "det_sample": 32, "det_runs": 200},
    "thorough": {"runs": 60000, "budget_s": 1500, "timeout_s": 180, "chunk": 8, "det_sample": 48, "det_runs": 600},
}
RULE = ("seeded plans: (base grid class/shape/bounds/periodicity, admissible decomposition with product 2-6 incl. uneven and "
        "single-cell chunks and 2 chunks on a periodic axis, field rank / collection, boundary condition, operator or equation, "
        "scheduler seed, delay/stall rates, policy); non-trivial = at least 4 point-to-point messages and at least one delayed "
        "message or stall; distinct = distinct (grid, decomposition, workload, hash of the simulator's event sequence)")
PROBES = ["sched/messages", "sched/delayed_messages", "sched/stalls", "sched/stall_after_send_before_recv",
          "sched/recv_blocked_on_undelivered", "sched/reordered_deliveries", "probes/two_chunks_on_periodic_axis",
          "probes/uneven_chunks", "probes/single_cell_chunk", "probes/script_solve", "probes/script_operator",
          "probes/adaptive_allreduce", "probes/collection_state", "faults/fired_stop_on_main_rank", "probes/vector_or_tensor_field", "probes/integral_allreduce",
          "probes/skipped_inadmissible", "probes/setup_invariants_on_large_decomposition", "probes/eleven_or_more_chunks_on_an_axis",
          "probes/padded_array_roundtrip_and_collectives", "probes/extract_subfield"]
COMPONENTS = {
    "real": ["pde.grids._mesh.GridMesh (split/combine/neighbours/flags/extract_boundary_conditions)", "pde.grids.boundaries.local._MPIBC",
             "BoundaryAxisBase.set_ghost_cells exchange", "pde.backends.numba_mpi.NumbaMPIBackend sender/setter chains (python mode)",
             "pde.solvers.explicit_mpi.ExplicitMPISolver", "Controller._run_parallel/_run_main_process/_run_client_process",
             "pde/tools/mpi.py"],
    "stub": ["mpi4py (sim/fakes/mpi4py: COMM_WORLD routed to the simulator)", "numba_mpi (importable stand-in)",
             "the MPI library, network and process launcher"],
    "not_exercised": ["pde/backends/numba_mpi/overloads.py (compiled code cannot call a Python fake; no MPI library in the sandbox)"],
}
ASSUMPTIONS = [
    "transport model: reliable, eager (never blocking) sends, non-overtaking per (source, dest, tag); rendezvous sends are not modelled",
    "loss, duplication and rank crashes are not injected (not legal MPI behaviour; a failing rank aborts the job)",
    "comparison with the serial result: bit-identical on UnitGrid, rtol=1e-10 otherwise (sub-grid cell sizes come from np.linspace "
    "and may differ from the base grid's by one ulp)",
    "documented limitations are skipped and counted (matched by exception type and message): hollow cylinders cannot be "
    "decomposed, curvature conditions need two cells per chunk, inhomogeneous/linked constant conditions cannot be transferred",
    "vector/tensor fields are not generated on spherical grids (the operators require purely radial input on the undivided grid too)",
]

AXES = {"UnitGrid": "xyz", "CartesianGrid": "xyz", "PolarSymGrid": "r", "SphericalSymGrid": "r", "CylindricalSymGrid": "rz"}
RANK_IN = {"laplace": 0, "gradient": 0, "gradient_squared": 0, "divergence": 1, "vector_gradient": 1, "vector_laplace": 1,
           "tensor_divergence": 2}
BCS = [{"value": 0}, {"derivative": 0}, {"value": 1.5}, {"derivative": -1}, {"type": "mixed", "value": 1, "const": 2},
       {"curvature": 0}, {"curvature": 1}, "auto_periodic_neumann", "auto_periodic_dirichlet",
       {"low": {"value": 1}, "high": {"derivative": 2}}, {"value_expression": "1 + COORD"}, {"derivative_expression": "COORD"},
       # (appended later, so that BCS[:9] stays what the end-to-end plans draw from)
       {"type": "mixed_expression", "value": "1", "const": "2"}, {"type": "mixed_expression", "value": "0.5", "const": "1 + COORD"},
       {"virtual_point": "2 - value"}, {"type": "mixed", "value": 0.5, "const": -1}]
BCS_TENSOR = [{"value": 0}, {"derivative": 0}, "auto_periodic_neumann", "auto_periodic_dirichlet", {"value": 1.0},
              # (normal-only conditions are not in the pool: they leave the virtual points of the tangential components
              # untouched by design, so an operator that reads them returns whatever the array held before - there is nothing
              # for the decomposed and the undivided evaluation to agree on; a false alarm of the first attempt)
              {"derivative": 0.5}, {"type": "mixed", "value": 1, "const": 2}]
WHITELIST = [("NotImplementedError", "Cylinders with hollow core are not implemented"),
             ("RuntimeError", "Need at least 2 support points to use curvature boundary condition"),
             ("ValueError", "Need two support points along axis"),  # the same limitation, reported by the compiled setter
             ("NotImplementedError", "Cannot transfer complicated BC to subgrid")]


def prepare():
    fakes = os.path.join(ROOT, "sim", "fakes")
    if fakes not in sys.path:
        sys.path.insert(0, fakes)
    import mpi4py  # noqa: F401  (must be the simulated one)

    if "simulated" not in getattr(mpi4py, "__version__", ""):
        raise RuntimeError("a real mpi4py is installed; mpi-sim must not shadow it")
    from sim.prewarm import prewarm_pde

    prewarm_pde()
    from pde.backends import get_backend

    get_backend("numba_mpi")


# ======================================================================================
# plans
# ======================================================================================


def _decompositions(shape, size):
    out = []
    for combo in itertools.product(range(1, size + 1), repeat=len(shape)):
        if int(np.prod(combo)) == size and all(c <= n for c, n in zip(combo, shape)):
            out.append(list(combo))
    return out


def gen_plan(rng, tier, idx):
    size = rng.choice([2, 2, 3, 4, 4, 6])
    for _ in range(50):
        r = rng.random()
        if r < 0.30:
            nd = 1
        elif r < 0.62:
            nd = 2
        elif r < 0.72:
            nd = 3
        elif r < 0.88:
            nd = "cyl"
        else:
            nd = rng.choice(["polar", "sph"])
        if nd in (1, 2, 3):
            hi = {1: 9, 2: 7, 3: 4}[nd]
            shape = [rng.randint(2, hi) for _ in range(nd)]
            periodic = [rng.random() < 0.4 for _ in range(nd)]
            if rng.random() < 0.4:
                grid = {"cls": "UnitGrid", "shape": shape, "periodic": periodic}
            else:
                bounds = []
                for n in shape:
                    lo = rng.choice([0.0, -1.0, 0.5, -2.0])
                    width = n * rng.choice([1.0, 0.5, 0.25]) if rng.random() < 0.5 else rng.uniform(0.5, 3.0)
                    bounds.append([lo, lo + width])
                grid = {"cls": "CartesianGrid", "bounds": bounds, "shape": shape, "periodic": periodic}
        elif nd == "cyl":
            shape = [rng.randint(2, 6), rng.randint(2, 6)]
            rad = rng.choice([2.0, 1.0, 3.5]) if rng.random() < 0.75 else [rng.choice([0.5, 1.0]), rng.choice([2.0, 3.0])]
            z0 = rng.choice([0.0, -1.0, -2.0])
            grid = {"cls": "CylindricalSymGrid", "radius": rad, "bounds_z": [z0, z0 + rng.choice([1.0, 2.0, 3.3])], "shape": shape,
                    "periodic": [False, rng.random() < 0.4]}
        else:
            rad = rng.choice([2.0, 3.0]) if rng.random() < 0.5 else [1.0, 3.0]
            grid = {"cls": "PolarSymGrid" if nd == "polar" else "SphericalSymGrid", "radius": rad, "shape": [rng.randint(2, 9)],
                    "periodic": [False]}
        decs = _decompositions(grid["shape"], size)
        if decs:
            break
    else:
        grid, size = {"cls": "UnitGrid", "shape": [8], "periodic": [True]}, 2
        decs = [[2]]
    # prefer decompositions with structure: two chunks on a periodic axis, single-cell chunks
    weights = []
    for d in decs:
        w = 1.0
        for c, n, p in zip(d, grid["shape"], grid["periodic"]):
            if c == 2 and p:
                w += 2.0
            if c == n and c > 1:
                w += 1.0
            if c > 1 and n % c:
                w += 1.0
        weights.append(w)
    dec = rng.choices(decs, weights=weights)[0]
    cls = grid["cls"]
    script = "solve" if rng.random() < 0.3 else "operator"
    sched = {"seed": rng.randrange(1 << 30), "p_delay": rng.choice([0.0, 0.2, 0.5, 0.9]), "max_delay": rng.choice([1, 3, 8, 25]),
             "p_stall": rng.choice([0.0, 0.1, 0.4]), "max_stall": rng.choice([3, 10, 40]),
             "policy": rng.choice(["random", "random", "random", "lowest", "highest", "roundrobin"]), "max_steps": 20000}
    plan = {"engine": "mpi-sim", "size": size, "grid": grid, "decomposition": dec, "script": script, "sched": sched,
            "dtype": "complex" if rng.random() < 0.12 and script == "operator" else "float", "field_seed": rng.randrange(1 << 30)}
    if script == "operator":
        ops = ["laplace", "gradient", "gradient_squared", "divergence", "vector_gradient", "vector_laplace", "tensor_divergence"]
        if cls == "SphericalSymGrid":
            ops = ["laplace", "gradient", "gradient_squared"]
        if cls == "PolarSymGrid":
            ops = ["laplace", "gradient", "gradient_squared", "divergence", "vector_gradient", "tensor_divergence"]
        name = rng.choice(ops)
        plan.update(op=name, rank_in=RANK_IN[name], bc=rng.choice(BCS if RANK_IN[name] == 0 else BCS_TENSOR),
                    collection=bool(RANK_IN[name] == 0 and rng.random() < 0.0),
                    route=rng.choice(["field", "field", "backend", "both"]),
                    # the operator object is used a second time with data of another dtype
                    second_dtype=rng.random() < 0.4,
                    split_collection=rng.random() < 0.25, coll_ranks=[rng.choice([0, 0, 1, 2]) for _ in range(rng.randint(1, 3))])
    else:
        eqs = [{"cls": "DiffusionPDE", "diffusivity": rng.choice([1, 0.5])},
               {"cls": "AllenCahnPDE"}, {"cls": "CahnHilliardPDE"},
               {"cls": "WavePDE", "speed": rng.choice([1, 2])},
               {"cls": "PDE", "rhs": {"c": "laplace(c) - c + integral(c)"}},
               {"cls": "PDE", "rhs": [["u", "laplace(c)"], ["c", "laplace(u) - u"]]},  # (a list: names not in alphabetical order)
               {"cls": "PDE", "rhs": {"w": "vector_laplace(w)"}, "vector": True}]
        eq = rng.choice(eqs)
        if eq.get("vector") and cls == "SphericalSymGrid":
            eq = eqs[0]
        if eq.get("vector") and cls == "PolarSymGrid":
            eq = eqs[0]
        # explicit time step well inside the stability limit of the equation on this grid (dx**2 for second-order, dx**4
        # for fourth-order equations): otherwise one-ulp differences between the cell size of a sub-grid and of the base
        # grid are amplified by many orders of magnitude within a few steps and "equal to round-off" loses its meaning
        if cls in ("UnitGrid",):
            dx_min = 1.0
        elif cls == "CartesianGrid":
            dx_min = min((b[1] - b[0]) / n for b, n in zip(grid["bounds"], grid["shape"]))
        elif cls == "CylindricalSymGrid":
            r = grid["radius"]
            dr = ((r[1] - r[0]) if isinstance(r, list) else r) / grid["shape"][0]
            dx_min = min(dr, (grid["bounds_z"][1] - grid["bounds_z"][0]) / grid["shape"][1])
        else:
            r = grid["radius"]
            dx_min = ((r[1] - r[0]) if isinstance(r, list) else r) / grid["shape"][0]
        order = 4 if eq["cls"] == "CahnHilliardPDE" else 2
        plan.update(eq=eq, bc=rng.choice(BCS[:9] if not eq.get("vector") else BCS_TENSOR), steps=rng.randint(1, 5),
                    dt=min(1e-3, 0.02 * dx_min ** order), adaptive=rng.random() < 0.25, tracker_every=rng.choice([1, 2, None]))
        if isinstance(plan["bc"], str) and cls in ("UnitGrid", "CartesianGrid", "CylindricalSymGrid") and rng.random() < 0.5:
            # a persistent solver object: first used for a run on a grid that differs from the planned one in nothing but
            # the periodicity of one axis, then for the planned run (boundary conditions given by name suit both grids)
            plan["reuse_solver"] = {"axis": len(grid["shape"]) - 1 if cls == "CylindricalSymGrid" else rng.randrange(len(grid["shape"]))}
        if plan["tracker_every"] and rng.random() < 0.35:
            # fault: the tracker (which runs on the main rank only) requests a stop at its m-th call;
            # the client ranks are somewhere inside their stepping loop and have to be released
            plan["stop"] = {"call": rng.randint(0, 3), "kind": rng.choice(["StopIteration", "FinishedSimulation"]),
                            "msg": rng.choice([None, "enough"])}
    # The setup invariants (tiling, split/combine, neighbours, link flags) need no rank processes: a third of the plans
    # also evaluates them for a decomposition far beyond the number of simulated ranks - "any number of chunks per axis up
    # to the number of cells" (drawn last so that the rest of a plan is what it was before this element existed)
    if rng.random() < 0.35:
        nd_b = rng.choice([1, 1, 2])
        shape_b = [rng.randint(2, 70) for _ in range(nd_b)]
        dec_b = [min(n, rng.choice([1, 2, 3, 5, 7, 11, 13, n, max(1, n - 1), rng.randint(1, n), rng.randint(1, n)])) for n in shape_b]
        while int(np.prod(dec_b)) > 160:
            k = dec_b.index(max(dec_b))
            dec_b[k] = max(1, dec_b[k] // 2)
        kind = rng.choice(["UnitGrid", "CartesianGrid", "CartesianGrid", "PolarSymGrid"])
        if kind == "PolarSymGrid":
            g_b = {"cls": "PolarSymGrid", "radius": rng.choice([2.0, [0.5, 3.0]]), "shape": shape_b[:1], "periodic": [False]}
            dec_b = dec_b[:1]
        elif kind == "UnitGrid":
            g_b = {"cls": "UnitGrid", "shape": shape_b, "periodic": [rng.random() < 0.5 for _ in shape_b]}
        else:
            g_b = {"cls": "CartesianGrid", "bounds": [[rng.choice([0.0, -1.0, 0.3]), rng.choice([1.0, 2.5, 7.0])] for _ in shape_b],
                   "shape": shape_b, "periodic": [rng.random() < 0.5 for _ in shape_b]}
        plan["big_mesh"] = {"grid": g_b, "decomposition": dec_b}
    if script == "operator" and rng.random() < 0.3:
        plan["helpers"] = True  # padded-array round trip and the mesh's collective helpers (drawn last)
    return plan


# ======================================================================================
# building things (used by the serial reference and by every rank)
# ======================================================================================


def _build_grid(spec):
    import pde

    c = spec["cls"]
    if c == "UnitGrid":
        return pde.UnitGrid(spec["shape"], periodic=spec["periodic"])
    if c == "CartesianGrid":
        return pde.CartesianGrid(spec["bounds"], spec["shape"], periodic=spec["periodic"])
    rad = spec["radius"]
    rad = tuple(rad) if isinstance(rad, list) else rad
    if c == "PolarSymGrid":
        return pde.PolarSymGrid(rad, spec["shape"][0])
    if c == "SphericalSymGrid":
        return pde.SphericalSymGrid(rad, spec["shape"][0])
    return pde.CylindricalSymGrid(rad, tuple(spec["bounds_z"]), spec["shape"], periodic_z=spec["periodic"][1])


def _bc(kind, gspec):
    if isinstance(kind, str):
        return kind
    names = AXES[gspec["cls"]][: len(gspec["shape"])]
    out = {}
    for i, (name, p) in enumerate(zip(names, gspec["periodic"])):
        if p:
            out[name] = "periodic"
            continue
        k = kind
        if any("COORD" in str(v) for v in kind.values()):
            others = [n for n in names if n != name]
            k = {key: str(v).replace("COORD", others[0] if others else "0") for key, v in kind.items()}
        if "low" in k:
            out[name + "-"], out[name + "+"] = k["low"], k["high"]
        else:
            out[name] = k
    return out


def _field(plan, grid, rank):
    import pde

    rng = np.random.default_rng(plan["field_seed"] + rank)
    shape = (grid.dim,) * rank + tuple(grid.shape)
    data = rng.uniform(-1, 1, size=shape)
    if plan["dtype"] == "complex":
        data = data + 1j * rng.uniform(-1, 1, size=shape)
    return (pde.ScalarField, pde.VectorField, pde.Tensor2Field)[rank](grid, data)


def _equation(plan, gspec):
    import pde

    e = plan["eq"]
    bc = _bc(plan["bc"], gspec)
    c = e["cls"]
    if c == "DiffusionPDE":
        return pde.DiffusionPDE(diffusivity=e["diffusivity"], bc=bc)
    if c == "AllenCahnPDE":
        return pde.AllenCahnPDE(bc=bc)
    if c == "CahnHilliardPDE":
        return pde.CahnHilliardPDE(bc_c=bc, bc_mu=bc)
    if c == "WavePDE":
        return pde.WavePDE(speed=e["speed"], bc=bc)
    return pde.PDE(dict(e["rhs"]), bc=bc)


def _state(plan, grid):
    import pde

    e = plan["eq"]
    if e["cls"] == "WavePDE" or (e["cls"] == "PDE" and len(e["rhs"]) == 2):
        return pde.FieldCollection([_field(plan, grid, 0), _field({**plan, "field_seed": plan["field_seed"] + 7}, grid, 0)])
    if e.get("vector"):
        return _field(plan, grid, 1)
    return _field(plan, grid, 0)


def _solve(plan, state, gspec, mpi: bool):
    import pde

    eq = _equation(plan, gspec)
    times = []
    trackers = []
    stop = plan.get("stop")

    def callback(s, t):
        times.append(float(t))
        if stop and len(times) - 1 == stop["call"]:
            from pde.trackers.base import FinishedSimulation

            exc = StopIteration if stop["kind"] == "StopIteration" else FinishedSimulation
            raise exc(stop["msg"]) if stop["msg"] is not None else exc()

    if plan["tracker_every"]:
        trackers.append(pde.CallbackTracker(callback, interrupts=plan["tracker_every"] * plan["dt"]))
    kw = {"adaptive": bool(plan["adaptive"])}
    if plan["adaptive"]:
        kw["tolerance"] = 1e-3
    if mpi and plan.get("reuse_solver"):
        from pde.solvers import Controller, ExplicitMPISolver

        solver = ExplicitMPISolver(eq, decomposition=plan["decomposition"], backend="auto", **kw)
        g2 = copy.deepcopy(gspec)
        g2["periodic"][plan["reuse_solver"]["axis"]] = not g2["periodic"][plan["reuse_solver"]["axis"]]
        other = _state(plan, _build_grid(g2))
        Controller(solver, t_range=plan["dt"], tracker=None).run(other, plan["dt"])  # first use of the solver object
        ctrl = Controller(solver, t_range=plan["steps"] * plan["dt"], tracker=trackers or None)
        res = ctrl.run(state, plan["dt"])
        info = ctrl.diagnostics
    elif mpi:
        res, info = eq.solve(state, t_range=plan["steps"] * plan["dt"], dt=plan["dt"], solver="explicit_mpi", tracker=trackers or None,
                             decomposition=plan["decomposition"], ret_info=True, **kw)
    else:
        res, info = eq.solve(state, t_range=plan["steps"] * plan["dt"], dt=plan["dt"], solver="euler", backend="numba",
                             tracker=trackers or None, ret_info=True, **kw)
    if res is None:
        return None
    return {"data": np.array(res.data, copy=True), "times": times, "steps": int(info["solver"]["steps"]),
            "t_final": float(info["controller"]["t_final"]), "backend": str(info["solver"].get("backend", {}).get("name", "")),
            "stop_reason": info["controller"].get("stop_reason"), "successful": info["controller"].get("successful")}


# ======================================================================================
# what every rank executes (SPMD)
# ======================================================================================


def _rank_program(rank, size, plan):
    import pde  # noqa: F401
    from pde.backends import get_backend
    from pde.grids._mesh import GridMesh

    gspec = plan["grid"]
    grid = _build_grid(gspec)
    if plan["script"] == "solve":
        return _solve(plan, _state(plan, grid), gspec, mpi=True)
    mesh = GridMesh.from_grid(grid, plan["decomposition"])
    out = {}
    field = _field(plan, grid, plan["rank_in"])
    bc = _bc(plan["bc"], gspec)
    sub = mesh.split_field_mpi(field)
    if plan["route"] in ("field", "both"):
        res = sub.apply_operator(plan["op"], bc)
        out["field"] = mesh.combine_field_data_mpi(np.array(res.data, copy=True))
    if plan["route"] in ("backend", "both"):
        backend = get_backend("numba_mpi")
        oper = sub.grid.make_operator(plan["op"], bc, backend=backend)
        out["backend"] = mesh.combine_field_data_mpi(np.array(oper(np.array(sub.data, copy=True)), copy=True))
        if plan.get("second_dtype"):
            other = "float" if plan["dtype"] == "complex" else "complex"
            sub2 = mesh.split_field_mpi(_field({**plan, "dtype": other, "field_seed": plan["field_seed"] + 101}, grid, plan["rank_in"]))
            out["backend_second_dtype"] = mesh.combine_field_data_mpi(np.array(oper(np.array(sub2.data, copy=True)), copy=True))
        # the sender/setter chain NumbaMPIBackend generates for compiled code, executed in python mode: all ghost
        # cells are poisoned first, so every one of them has to come from a neighbour or from the boundary condition
        bcs = sub.grid.get_boundary_conditions(bc, rank=plan["rank_in"])
        setter = backend.make_ghost_cell_setter(bcs)
        full = np.array(sub._data_full, copy=True)
        ghost = np.ones(full.shape, dtype=bool)
        ghost[(...,) + (slice(1, -1),) * sub.grid.num_axes] = False
        full[ghost] = np.nan
        setter(full)
        info = backend.get_operator_info(sub.grid, plan["op"])
        res = np.full((sub.grid.dim,) * info.rank_out + tuple(sub.grid.shape), np.nan, dtype=full.dtype)
        backend.make_operator_no_bc(sub.grid, plan["op"])(full, res)
        out["setter"] = mesh.combine_field_data_mpi(res)
    if plan.get("helpers"):
        # round trip of the padded array (ghost cells included) and the mesh's collective helpers
        full0 = np.array(field._data_full, copy=True)
        full0[...] = np.arange(full0.size, dtype=float).reshape(full0.shape) + 0.25
        sub_full = mesh.split_field_data_mpi(full0, with_ghost_cells=True)
        out["ghost_sub_shape_ok"] = mesh.gather(bool(sub_full.shape[-grid.num_axes:] == tuple(mesh.current_grid._shape_full)))
        out["ghost_sub_equal"] = mesh.gather(bool(np.array_equal(sub_full, mesh.extract_field_data(full0, mesh.current_node, with_ghost_cells=True))))
        out["ghost_roundtrip"] = mesh.combine_field_data_mpi(np.array(sub_full, copy=True), with_ghost_cells=True)
        # the same for the valid cells, combined into an array supplied by the caller
        sub_valid = mesh.split_field_data_mpi(np.array(full0[(...,) + (slice(1, -1),) * grid.num_axes], copy=True), with_ghost_cells=False)
        target = np.full(field.data.shape, np.nan) if rank == 0 else None
        res_valid = mesh.combine_field_data_mpi(np.array(sub_valid, copy=True), out=target)
        out["valid_roundtrip"] = None if rank else np.array(target, copy=True)
        out["valid_roundtrip_returns_out"] = None if rank else bool(res_valid is target)
        out["bcast"] = mesh.gather(mesh.broadcast(("payload", rank)))          # everybody must hold the main node's value
        out["scatter"] = mesh.gather(mesh.scatter([("item", k) for k in range(size)] if rank == 0 else None))
        out["allgather"] = mesh.gather(mesh.allgather(("from", rank)))
        out["node_ids"] = mesh.gather(int(mesh.current_node))
    if plan.get("split_collection"):
        import pde as _p

        coll = _p.FieldCollection([_field({**plan, "field_seed": plan["field_seed"] + 11 * k}, grid, r)
                                   for k, r in enumerate(plan["coll_ranks"])])
        subc = mesh.split_field_mpi(coll)
        out["collection_shapes"] = [list(f.data.shape) for f in subc]
        out["collection"] = mesh.combine_field_data_mpi(np.array(subc.data, copy=True))
    return out if rank == 0 else {k: None for k in out}


# ======================================================================================
# execution and oracles
# ======================================================================================


def _whitelisted(exc):
    return any(exc["type"] == t and m in exc["msg"] for t, m in WHITELIST)


def _mesh_invariants(plan, fail, probe):
    """Setup invariants of C17, checked serially in every run (the simulation needs them anyway)."""
    import pde  # noqa: F401
    import importlib

    from pde.grids._mesh import GridMesh

    mpi_mod = importlib.import_module("pde.tools.mpi")

    def flag_of(node, neighbor, upper):
        """The tag node `node` uses for its lower/upper link to `neighbor` (through the mesh's own method, evaluated
        as that node; how tags are derived internally is not the harness' business)."""
        old = mpi_mod.rank
        mpi_mod.rank = node
        try:
            return int(mesh.get_boundary_flag(neighbor, upper))
        finally:
            mpi_mod.rank = old

    gspec = plan["grid"]
    grid = _build_grid(gspec)
    try:
        mesh = GridMesh.from_grid(grid, plan["decomposition"])
    except Exception as err:  # noqa: BLE001
        exc = {"type": type(err).__name__, "msg": str(err)}
        if _whitelisted(exc):
            return None
        fail("C17/mesh-construction-raised", f"GridMesh.from_grid({gspec}, {plan['decomposition']}) raised {type(err).__name__}: {err}")
        return None
    n = len(mesh)
    dec = plan["decomposition"]
    if any(c == 2 and p for c, p in zip(dec, gspec["periodic"])):
        probe("two_chunks_on_periodic_axis")
    if any(c > 1 and s % c for c, s in zip(dec, gspec["shape"])):
        probe("uneven_chunks")
    if any(c == s and c > 1 for c, s in zip(dec, gspec["shape"])):
        probe("single_cell_chunk")
    # tiling: bounds, shapes, volumes, cell coordinates
    vol = sum(float(np.sum(np.broadcast_to(mesh[i].cell_volumes, mesh[i].shape))) for i in range(n))
    vol0 = float(np.sum(np.broadcast_to(grid.cell_volumes, grid.shape)))
    if not np.isclose(vol, vol0, rtol=1e-10):
        fail("C17/tiling", f"sub-grid volumes sum to {vol!r}, the grid has {vol0!r} ({gspec}, decomposition {dec}; sub-grid bounds "
             f"{[mesh[i].axes_bounds for i in range(n)]})", key="C17/tiling/volume")
    for ax in range(grid.num_axes):
        for idx_other in itertools.product(*[range(d) if a != ax else [0] for a, d in enumerate(dec)]):
            coords, cells = [], 0
            for k in range(dec[ax]):
                idx = list(idx_other)
                idx[ax] = k
                sg = mesh[mesh._idx2id(idx)]
                coords.extend(np.asarray(sg.axes_coords[ax]).tolist())
                cells += sg.shape[ax]
                lo, hi = sg.axes_bounds[ax]
                if k == 0 and not np.isclose(lo, grid.axes_bounds[ax][0], rtol=1e-12, atol=1e-12):
                    fail("C17/tiling", f"axis {ax}: first sub-grid starts at {lo!r}, grid at {grid.axes_bounds[ax][0]!r} ({gspec}, {dec})",
                         key="C17/tiling/bounds")
                if k == dec[ax] - 1 and not np.isclose(hi, grid.axes_bounds[ax][1], rtol=1e-12, atol=1e-12):
                    fail("C17/tiling", f"axis {ax}: last sub-grid ends at {hi!r}, grid at {grid.axes_bounds[ax][1]!r}", key="C17/tiling/bounds")
            if cells != grid.shape[ax] or not np.allclose(coords, grid.axes_coords[ax], rtol=1e-12, atol=1e-12):
                fail("C17/tiling", f"axis {ax}: sub-grid cell coordinates {coords} do not tile {np.asarray(grid.axes_coords[ax]).tolist()}",
                     key="C17/tiling/coordinates")
        for a2 in range(grid.num_axes):
            if a2 != ax:
                for i in range(n):
                    if not np.allclose(mesh[i].axes_bounds[a2], mesh[i].axes_bounds[a2]):
                        pass
    # an undivided axis keeps its bounds (catches a lost inner radius)
    for ax, c in enumerate(dec):
        if c == 1:
            for i in range(n):
                if not np.allclose(np.asarray(mesh[i].axes_bounds[ax], dtype=float), np.asarray(grid.axes_bounds[ax], dtype=float)):
                    fail("C17/tiling", f"undivided axis {ax}: sub-grid {i} has bounds {mesh[i].axes_bounds[ax]}, the grid {grid.axes_bounds[ax]} ({gspec})",
                         key="C17/tiling/undivided-axis-bounds")
    # split/combine identity with and without ghost cells
    for rank in (0, 1):
        if gspec["cls"] == "SphericalSymGrid" and rank:
            continue
        f = _field(plan, grid, rank)
        full = np.array(f._data_full, copy=True)
        full[...] = np.random.default_rng(plan["field_seed"]).uniform(size=full.shape)
        parts = [mesh.extract_field_data(f.data, i) for i in range(n)]
        if not np.array_equal(mesh.combine_field_data(parts), f.data):
            fail("C17/split-combine", f"extract/combine of valid data is not the identity ({gspec}, {dec}, rank {rank})")
        parts = [mesh.extract_field_data(full, i, with_ghost_cells=True) for i in range(n)]
        if not np.array_equal(mesh.combine_field_data(parts, with_ghost_cells=True), full):
            fail("C17/split-combine", f"extract/combine with ghost cells is not the identity ({gspec}, {dec}, rank {rank})")
        for i in range(n):
            if parts[i].shape[-grid.num_axes:] != mesh[i]._shape_full:
                fail("C17/split-combine", f"sub-field {i} has shape {parts[i].shape}, its grid {mesh[i]._shape_full}")
        # the same through field objects (extract_subfield), for single fields and - once - for a collection
        f._data_full = full
        f.label = "lbl"
        for w in (False, True):
            subs = [mesh.extract_subfield(f, i, with_ghost_cells=w) for i in range(min(n, 12))]
            for i, sf in enumerate(subs):
                want = mesh.extract_field_data(full if w else f.data, i, with_ghost_cells=w)
                got = sf._data_full if w else sf.data
                if type(sf) is not type(f) or sf.grid is not mesh[i] or sf.label != f.label or sf.dtype != f.dtype or not np.array_equal(got, want):
                    fail("C17/split-combine", f"extract_subfield(node {i}, with_ghost_cells={w}) of a rank-{rank} field on {gspec}, {dec}: class "
                         f"{type(sf).__name__}, label {sf.label!r}, dtype {sf.dtype}, data equal to extract_field_data: {bool(np.array_equal(got, want))}",
                         key="C17/split-combine/extract_subfield")
        probe("extract_subfield")
    if gspec["cls"] != "SphericalSymGrid":
        import pde as _pde

        coll = _pde.FieldCollection([_field(plan, grid, 0), _field(plan, grid, 1)], label="both")
        # (ghost cells are uninitialised memory: give them values, NaN patterns would never compare equal)
        coll._data_full[...] = np.random.default_rng(plan["field_seed"] + 5).uniform(size=coll._data_full.shape)
        for w in (False, True):
            for i in range(min(n, 4)):
                sc = mesh.extract_subfield(coll, i, with_ghost_cells=w)
                want = mesh.extract_field_data(coll._data_full if w else coll.data, i, with_ghost_cells=w)
                got = sc._data_full if w else sc.data
                if type(sc) is not _pde.FieldCollection or len(sc) != 2 or sc.label != "both" or not np.array_equal(got, want):
                    fail("C17/split-combine", f"extract_subfield(node {i}, with_ghost_cells={w}) of a [scalar, vector] collection on {gspec}, {dec} "
                         "does not hold the node's part of the data", key="C17/split-combine/extract_subfield-collection")
    # neighbour relations: symmetric, wrap only on periodic axes; link flags agree at both ends and are unique per rank pair
    links = {}
    for a in range(n):
        for ax in range(grid.num_axes):
            for upper in (False, True):
                b = mesh.get_neighbor(ax, upper, node_id=a)
                idx = mesh._id2idx(a)
                at_edge = idx[ax] == (dec[ax] - 1 if upper else 0)
                if b is None:
                    if dec[ax] > 1 and not (at_edge and not gspec["periodic"][ax]):
                        fail("C17/neighbours", f"node {a} has no {'upper' if upper else 'lower'} neighbour along axis {ax} ({gspec}, {dec})")
                    continue
                if at_edge and not gspec["periodic"][ax]:
                    fail("C17/neighbours", f"node {a} wraps around the non-periodic axis {ax} to node {b}")
                back = mesh.get_neighbor(ax, not upper, node_id=b)
                if back != a:
                    fail("C17/neighbours", f"neighbour relation not symmetric: n({a}, axis {ax}, {'up' if upper else 'down'}) = {b} but "
                         f"n({b}, axis {ax}, {'down' if upper else 'up'}) = {back}")
                mine = flag_of(a, b, upper)
                theirs = flag_of(b, a, not upper)
                if mine != theirs:
                    fail("C17/link-flags", f"link {a}<->{b} axis {ax}: flag {mine} at one end, {theirs} at the other")
                links.setdefault((a, b), []).append(int(mine))
    for (a, b), flags in links.items():
        if len(set(flags)) != len(flags):
            # not a violation by itself: messages of one channel are delivered in order, so equal tags are harmless as long
            # as sends and receives are issued in the same order; the simulated exchange decides
            probe("distinct_links_share_a_tag")
    return mesh


def execute(plan):
    import pde  # noqa: F401

    from sim import ranks

    log = EventLog()
    log.add("plan", digest_of(plan))
    stats = {"sched": {}, "probes": {}, "faults": {}}
    viol = None

    def probe(name, n=1):
        stats["probes"][name] = stats["probes"].get(name, 0) + n

    def fail(klass, detail, key=None):
        nonlocal viol
        if viol is None:
            viol = violation(klass, detail, key)

    def finish(nontrivial=False, sig=None):
        log.add("verdict", viol["class"] if viol else None)
        return {"violation": viol, "digest": log.digest(), "stats": stats, "nontrivial": nontrivial,
                "sig": sig or digest_of(plan), "sched_steps": stats["sched"].get("decisions", 0), "events_head": log.head[:60]}

    gspec = plan["grid"]
    grid = _build_grid(gspec)
    def invariants(pl):
        # the setup invariants only call documented mesh methods with legal arguments: an exception is py-pde's, not the harness'
        try:
            return _mesh_invariants(pl, fail, probe)
        except Exception as err:  # noqa: BLE001
            import traceback

            where = traceback.extract_tb(err.__traceback__)[-1]
            fail("C17/setup-raised", f"a mesh method raised {type(err).__name__}: {err} (in {where.filename.split('/')[-1]}:{where.lineno} {where.name}) for "
                 f"{pl['grid']}, decomposition {pl['decomposition']}")
            return None

    mesh = invariants(plan)
    if plan.get("big_mesh") and viol is None:
        invariants({**plan, "grid": plan["big_mesh"]["grid"], "decomposition": plan["big_mesh"]["decomposition"], "dtype": "float"})
        probe("setup_invariants_on_large_decomposition")
        if max(plan["big_mesh"]["decomposition"]) >= 11:
            probe("eleven_or_more_chunks_on_an_axis")
    # ---- serial reference on the undivided grid
    ref = {}
    ref_exc = None
    try:
        if plan["script"] == "solve":
            ref = _solve(plan, _state(plan, grid), gspec, mpi=False)
            probe("script_solve")
        else:
            f = _field(plan, grid, plan["rank_in"])
            ref["op"] = np.array(f.apply_operator(plan["op"], _bc(plan["bc"], gspec)).data, copy=True)
            if plan.get("second_dtype"):
                other = "float" if plan["dtype"] == "complex" else "complex"
                f2 = _field({**plan, "dtype": other, "field_seed": plan["field_seed"] + 101}, grid, plan["rank_in"])
                ref["op_second_dtype"] = np.array(f2.apply_operator(plan["op"], _bc(plan["bc"], gspec)).data, copy=True)
            probe("script_operator")
            if plan["rank_in"]:
                probe("vector_or_tensor_field")
    except Exception as err:  # noqa: BLE001 - the workload is not admissible on the undivided grid either
        ref_exc = {"type": type(err).__name__, "msg": str(err)[:300]}
        log.add("serial-reference-raised", ref_exc["type"])
    if mesh is None and viol is None:
        probe("skipped_inadmissible")
        return finish()
    if ref_exc is not None:
        probe("skipped_inadmissible")
        return finish()
    # ---- decomposing a grid must leave the grid object it was given as it was: the same grid object is decomposed
    # (also trivially, one chunk per axis), decomposed again, and then used as a whole
    if plan["script"] == "operator" and viol is None:
        from pde.grids._mesh import GridMesh

        g_user = _build_grid(gspec)
        try:
            GridMesh.from_grid(g_user, [1] * g_user.num_axes)
            GridMesh.from_grid(g_user, plan["decomposition"])
            GridMesh.from_grid(g_user, [1] * g_user.num_axes)
            f_user = _field(plan, g_user, plan["rank_in"])
            again = np.array(f_user.apply_operator(plan["op"], _bc(plan["bc"], gspec)).data, copy=True)
            if not np.array_equal(again, ref["op"], equal_nan=True):
                fail("C17/grid-changed-by-decomposition", f"{plan['op']} on {gspec} gives another result after the grid object was decomposed "
                     f"(trivially and as {plan['decomposition']})")
            probe("grid_reused_after_decomposition")
        except Exception as err:  # noqa: BLE001
            fail("C17/grid-changed-by-decomposition", f"after GridMesh.from_grid(grid, [1,..]) and from_grid(grid, {plan['decomposition']}) the same grid object "
                 f"can no longer be used as a whole: {plan['op']} with bc {plan['bc']} on {gspec} raised {type(err).__name__}: {err}")

    # ---- the simulated MPI job
    outcome, results, sim = ranks.run_ranks(plan["size"], plan["sched"], _rank_program, plan)
    for k, v in sim.stats.items():
        stats["sched"][k] = v
    for ev in sim.events[:200]:
        log.add(*ev)
    log.add("sim", sim.signature(), outcome["kind"] if outcome else None)
    failed = {r: v for r, (k, v) in results.items() if k in ("exc", "abort")}
    aborted = {}
    if failed:
        r0 = sorted(failed)[0]
        exc = failed[r0]
        if _whitelisted(exc):
            probe("skipped_inadmissible")
            return finish()
        key = None
        if exc["type"] == "BCDataError" and "not defined with the same rank" in exc["msg"]:
            key = "C17/periodic-bc/rank-lost-on-subgrid"
        fail("C17/rank-exception", f"rank {r0} of {plan['size']} raised {exc['type']}: {exc['msg']} ({plan['script']} on {gspec}, decomposition "
             f"{plan['decomposition']}, bc {plan['bc']}); the same workload runs on the undivided grid\n{exc['tb'][-600:]}", key=key)
        return finish(True)
    if aborted:
        fail("C17/job-aborted", f"ranks {sorted(aborted)} called COMM_WORLD.Abort ({plan['script']} on {gspec}, {plan['decomposition']})")
        return finish(True)
    if outcome is not None:
        fail("C17/" + outcome["kind"], f"{outcome.get('detail', '')} ({plan['script']} on {gspec}, decomposition {plan['decomposition']}, "
             f"schedule seed {plan['sched']['seed']}, policy {plan['sched']['policy']})")
        return finish(True)
    left = sim.leftovers()
    if left:
        fail("C17/unreceived-messages", f"messages left in mailboxes at exit: {left}")
    r0 = results[0][1]
    # bit-identical where both sides execute the same arithmetic: exactly representable cell size and no global
    # reduction (the integral of a field is summed in another order when it is accumulated per sub-grid)
    exact = gspec["cls"] == "UnitGrid" and "integral" not in str(plan.get("eq", {}).get("rhs", ""))

    # absolute tolerance from the size of the terms that are summed (field values of order one divided by dx or dx**2),
    # not from the result, which may cancel to zero
    inv_dx = 1 / np.asarray(grid.discretization, dtype=float)
    term_scale = max(1.0, float(np.max(inv_dx)), float(np.max(inv_dx)) ** 2)

    def same(a, b):
        a, b = np.asarray(a), np.asarray(b)
        if a.shape != b.shape:
            return False
        if exact:
            return bool(np.array_equal(a, b, equal_nan=True))
        scale = max(float(np.nanmax(np.abs(b))) if b.size else 0.0, term_scale)
        # an adaptive run chooses its steps from an error estimate and runs them up to the stability limit, where
        # round-off differences between the two computations are amplified; a wrong ghost cell is an O(1e-2) effect
        rtol = 1e-6 if plan.get("adaptive") else 1e-10
        return bool(np.allclose(a, b, rtol=rtol, atol=rtol * 0.1 * scale, equal_nan=True))

    if plan["script"] == "solve":
        if r0 is None:
            fail("C17/no-result-on-main", "rank 0 returned no state")
        else:
            if plan["adaptive"]:
                probe("adaptive_allreduce")
            if "integral" in str(plan["eq"].get("rhs", "")):
                probe("integral_allreduce")
            if plan["eq"]["cls"] == "WavePDE" or len(plan["eq"].get("rhs", {"x": 1})) == 2:
                probe("collection_state")
            if plan["eq"].get("vector"):
                probe("vector_or_tensor_field")
            if plan.get("reuse_solver"):
                probe("solver_object_reused_on_other_periodicity")
            if "numba_mpi" not in r0["backend"]:
                fail("C17/wrong-backend", f"explicit_mpi selected backend {r0['backend']!r}")
            if plan.get("stop"):
                stats["faults"]["configured_stop"] = 1
                if len(ref["times"]) > plan["stop"]["call"]:
                    stats["faults"]["fired_stop_on_main_rank"] = 1
            if (r0["stop_reason"], r0["successful"]) != (ref["stop_reason"], ref["successful"]):
                fail("C17/solve-stop-info", f"MPI run ended with {r0['stop_reason']!r} (successful={r0['successful']}), the serial run with "
                     f"{ref['stop_reason']!r} (successful={ref['successful']}); stop fault {plan.get('stop')}")
            elif r0["steps"] != ref["steps"] or not np.isclose(r0["t_final"], ref["t_final"], rtol=1e-12, atol=1e-15):
                fail("C17/solve-accounting", f"MPI run: {r0['steps']} steps to t={r0['t_final']!r}; serial run: {ref['steps']} steps to t={ref['t_final']!r}")
            elif not np.allclose(r0["times"], ref["times"], rtol=1e-12, atol=1e-15) or len(r0["times"]) != len(ref["times"]):
                fail("C17/solve-tracker-times", f"tracker called at {r0['times']} in the MPI run and at {ref['times']} in the serial run")
            elif not same(r0["data"], ref["data"]):
                d = float(np.nanmax(np.abs(np.asarray(r0["data"]) - np.asarray(ref["data"])))) if np.shape(r0["data"]) == np.shape(ref["data"]) else float("nan")
                fail("C17/solve-differs-from-serial", f"{plan['eq']} bc={plan['bc']} on {gspec} split {plan['decomposition']}: final state differs from the "
                     f"serial run by {d:.3e} after {ref['steps']} steps (adaptive={plan['adaptive']})")
    else:
        if r0.get("backend_second_dtype") is not None:
            probe("operator_reused_with_other_dtype")
            if not same(r0["backend_second_dtype"], ref["op_second_dtype"]):
                fail("C17/operator-differs-from-serial", f"{plan['op']} bc={plan['bc']} on {gspec} split {plan['decomposition']}: the numba_mpi operator object, "
                     f"used first with {plan['dtype']} data and then with data of the other dtype, gives a second result that differs from the "
                     "undivided grid", key="C17/operator-differs-from-serial/backend-second-dtype")
        for route in ("field", "backend", "setter"):
            if route in r0 and r0[route] is not None and not same(r0[route], ref["op"]):
                d = float(np.nanmax(np.abs(r0[route] - ref["op"]))) if r0[route].shape == ref["op"].shape else float("nan")
                fail("C17/operator-differs-from-serial", f"{plan['op']} bc={plan['bc']} on {gspec} split {plan['decomposition']} dtype={plan['dtype']} via {route}: "
                     f"combined result differs from the undivided grid by {d:.3e}", key=f"C17/operator-differs-from-serial/{route}")
        if r0.get("ghost_roundtrip") is not None:
            probe("padded_array_roundtrip_and_collectives")
            n_ranks = plan["size"]
            f0 = _field(plan, grid, plan["rank_in"])
            full0 = np.array(f0._data_full, copy=True)
            full0[...] = np.arange(full0.size, dtype=float).reshape(full0.shape) + 0.25
            if not np.array_equal(r0["ghost_roundtrip"], full0):
                fail("C17/split-combine", f"split_field_data_mpi + combine_field_data_mpi with ghost cells is not the identity ({gspec}, {plan['decomposition']})",
                     key="C17/split-combine/mpi-with-ghost-cells")
            elif not all(r0["ghost_sub_shape_ok"]) or not all(r0["ghost_sub_equal"]):
                fail("C17/split-combine", f"split_field_data_mpi(with_ghost_cells=True): the array received by a node is not the node's part of the padded "
                     f"array (shape ok per node {r0['ghost_sub_shape_ok']}, equal per node {r0['ghost_sub_equal']})", key="C17/split-combine/mpi-with-ghost-cells")
            if not np.array_equal(r0["valid_roundtrip"], full0[(...,) + (slice(1, -1),) * grid.num_axes]) or not r0["valid_roundtrip_returns_out"]:
                fail("C17/split-combine", f"split_field_data_mpi + combine_field_data_mpi(out=...) of the valid cells is not the identity written into "
                     f"`out` (returned out: {r0['valid_roundtrip_returns_out']}) ({gspec}, {plan['decomposition']})", key="C17/split-combine/mpi-valid-out")
            if r0["node_ids"] != list(range(n_ranks)):
                fail("C17/collectives", f"current_node per rank is {r0['node_ids']}")
            if [tuple(x) for x in r0["bcast"]] != [("payload", 0)] * n_ranks:
                fail("C17/collectives", f"mesh.broadcast delivered {r0['bcast']}")
            if [tuple(x) for x in r0["scatter"]] != [("item", k) for k in range(n_ranks)]:
                fail("C17/collectives", f"mesh.scatter delivered {r0['scatter']}")
            if any([tuple(x) for x in row] != [("from", k) for k in range(n_ranks)] for row in r0["allgather"]):
                fail("C17/collectives", f"mesh.allgather delivered {r0['allgather']}")
        if "collection" in r0 and r0["collection"] is not None:
            import pde as _p

            coll = _p.FieldCollection([_field({**plan, "field_seed": plan["field_seed"] + 11 * k}, grid, r)
                                       for k, r in enumerate(plan["coll_ranks"])])
            probe("collection_state")
            want = [list((grid.dim,) * r) for r in plan["coll_ranks"]]
            got = [s[: len(s) - grid.num_axes] for s in r0["collection_shapes"]]
            if got != want:
                fail("C17/split-collection", f"split_field_mpi of a collection with ranks {plan['coll_ranks']} on {gspec}: member component shapes {got}, expected {want}",
                     key="C17/split-collection/components-dropped-symmetric-grid")
            elif not np.array_equal(r0["collection"], coll.data):
                fail("C17/split-collection", f"split + combine of a collection with ranks {plan['coll_ranks']} on {gspec} is not the identity")
    nontrivial = sim.stats["messages"] >= 4 and (sim.stats["delayed_messages"] > 0 or sim.stats["stalls"] > 0)
    return finish(nontrivial, digest_of([gspec, plan["decomposition"], plan["script"], plan.get("op"), plan.get("eq"), sim.signature()]))


def shrink_lists(plan):
    return []


def simplify(plan):
    def variant(fn):
        p = copy.deepcopy(plan)
        fn(p)
        return p

    s = plan["sched"]
    if plan.get("helpers"):
        yield variant(lambda p: p.pop("helpers"))
    if plan.get("big_mesh"):
        yield variant(lambda p: p.pop("big_mesh"))
        bm = plan["big_mesh"]
        if len(bm["decomposition"]) > 1:
            yield variant(lambda p: p["big_mesh"].update(decomposition=p["big_mesh"]["decomposition"][:1],
                                                         grid={**p["big_mesh"]["grid"], "shape": p["big_mesh"]["grid"]["shape"][:1],
                                                               "periodic": p["big_mesh"]["grid"]["periodic"][:1],
                                                               **({"bounds": p["big_mesh"]["grid"]["bounds"][:1]} if "bounds" in p["big_mesh"]["grid"] else {})}))
    if s["p_delay"]:
        yield variant(lambda p: p["sched"].update(p_delay=0.0))
    if s["p_stall"]:
        yield variant(lambda p: p["sched"].update(p_stall=0.0))
    if s["policy"] != "lowest":
        yield variant(lambda p: p["sched"].update(policy="lowest"))
    g = plan["grid"]
    for i, n in enumerate(g["shape"]):
        if n > plan["decomposition"][i] and n > 2:
            yield variant(lambda p, i=i: p["grid"]["shape"].__setitem__(i, p["grid"]["shape"][i] - 1))
    if plan["size"] > 2:
        for i, c in enumerate(plan["decomposition"]):
            if c > 1:
                def f(p, i=i):
                    p["decomposition"][i] -= 1
                    p["size"] = int(np.prod(p["decomposition"]))
                cand = variant(f)
                if cand["size"] >= 2:
                    yield cand
    if g["cls"] == "CartesianGrid":
        yield variant(lambda p: p.update(grid={"cls": "UnitGrid", "shape": p["grid"]["shape"], "periodic": p["grid"]["periodic"]}))
    if plan["dtype"] != "float":
        yield variant(lambda p: p.update(dtype="float"))
    if plan["bc"] != {"value": 0}:
        yield variant(lambda p: p.update(bc={"value": 0}))
    if plan["script"] == "solve":
        if plan["steps"] > 1:
            yield variant(lambda p: p.update(steps=1))
        if plan["adaptive"]:
            yield variant(lambda p: p.update(adaptive=False))
        if plan.get("stop"):
            yield variant(lambda p: p.pop("stop"))
        if plan.get("reuse_solver"):
            yield variant(lambda p: p.pop("reuse_solver"))
        if plan["tracker_every"] and not plan.get("stop"):
            yield variant(lambda p: p.update(tracker_every=None))
        if plan["eq"]["cls"] != "DiffusionPDE":
            yield variant(lambda p: p.update(eq={"cls": "DiffusionPDE", "diffusivity": 1}))
    else:
        if plan.get("split_collection"):
            yield variant(lambda p: p.update(split_collection=False))
        if plan.get("second_dtype"):
            yield variant(lambda p: p.update(second_dtype=False))
        if plan["route"] != "field":
            yield variant(lambda p: p.update(route="field"))
