"""C04 - results never depend on what was computed earlier in the process.
Engine: history-sim (DESIGN.md 4.2).

One forked child ("history process") executes a seeded sequence of public-API operations on a
pool of live objects with every cache of py-pde in place.  After EVERY operation the returned
value is compared with the value of the same operation performed by a pristine reference
child (forked from a zygote interpreter that has imported pde and done nothing else, running
under another PYTHONHASHSEED) on freshly built objects holding the current field contents.
Environment events (gc, cache clears, dropping objects and re-allocating poisoned memory) are
the fault dimension.
"""

from __future__ import annotations

import copy
import gc
import os

import numpy as np

from sim import history_ops as ho
from sim.core import EventLog, digest_of, violation
from sim.zygote import ZygoteClient

PROPERTY = "C04"
ISOLATE = True
TIERS = {
    "quick": {"runs": 1400, "budget_s": 180, "timeout_s": 120, "chunk": 8, "det_sample": 24, "det_runs": 120,
              "shrink_s": 150, "shrink_execs": 300},
    "thorough": {"runs": 30000, "budget_s": 1500, "timeout_s": 240, "chunk": 8, "det_sample": 32, "det_runs": 400,
                 "shrink_s": 300, "shrink_execs": 600},
}
RULE = ("seeded histories of 4-25 public-API operations (operators via 5 routes, interpolation, collections incl. re-linking, "
        "evolution rates, solves, Poisson solves, measures, expression fields) on small pools of grids / fields / equations / "
        "boundary conditions chosen to coincide in some attributes, interleaved with environment events; every operation is "
        "compared with a pristine forked interpreter.  non-trivial = at least two compared operations that share a grid spec "
        "shape or an equation object; distinct = distinct (pools, operations)")
PROBES = ["probes/compared_ops", "probes/same_spec_distinct_grids", "probes/bc_kind_varied_same_grid_op",
          "probes/eq_reused_on_second_state", "probes/interp_after_relink", "faults/gc", "faults/poison",
          "faults/clear_cache", "faults/drop", "probes/exceptions_agreed", "probes/linked_array_changed_in_place"]
COMPONENTS = {
    "real": ["everything: grids, fields, collections, boundary conditions, operators (numba backend in python mode, scipy backend), "
             "interpolators, PDE classes, expression parser, solvers, controller; all caches of pde.tools.cache, the backend "
             "singletons, PDE._cache"],
    "stub": ["LLVM code generation (NUMBA_DISABLE_JIT=1; the caches are Python-level and identical in both modes)"],
    "reference": ["the same call in a forked child of a zygote interpreter (PYTHONHASHSEED=777) that imported pde and computed nothing"],
}
ASSUMPTIONS = [
    "global configuration is fixed within a history (as the property states)",
    "no operation mutates attributes of an equation or boundary-condition object after construction",
    "comparison rtol=1e-9 (wrong-cache bugs are O(1) errors; the tolerance absorbs a different summation order after sympy "
    "simplification under another hash seed)",
    "sympy's own internal caches are warmed in both the history and the reference interpreter (they are not py-pde state)",
    "interpolation points are kept 2% away from the domain boundary",
]

_CLIENT = {"pid": None, "client": None}


def prepare():
    ho.prepare()


def worker_init():
    if _CLIENT["pid"] != os.getpid() or _CLIENT["client"] is None or _CLIENT["client"].proc is None \
            or _CLIENT["client"].proc.poll() is not None:
        old = _CLIENT["client"]
        if old is not None and _CLIENT["pid"] != os.getpid() and old.proc is not None:
            # inherited from the parent process: just let go of our copies of its pipes
            try:
                old.proc.stdin.close()
                old.proc.stdout.close()
            except Exception:  # noqa: BLE001
                pass
        c = ZygoteClient("sim.history_ops", hashseed="777")
        c.start()
        _CLIENT["pid"], _CLIENT["client"] = os.getpid(), c


def worker_reset():
    c = _CLIENT["client"]
    if c is not None and _CLIENT["pid"] == os.getpid():
        c.stop()
    _CLIENT["client"] = None
    worker_init()


# ======================================================================================
# pools (deliberately small and overlapping)
# ======================================================================================

# (Two-field equations: the rhs is a LIST of (name, expression) pairs whose names are deliberately not in alphabetical order -
# a dict would be re-ordered by the sorted JSON of replay files, and alphabetical names would hide every bug that sorts them.)
GRID_FAMILIES = [
    # 1-d: geometrically equal grids of different class, equal shape with different bounds / periodicity,
    # bounds that differ only in -1 vs -2 (equal float hashes in CPython)
    [{"cls": "UnitGrid", "shape": [8], "periodic": [False]},
     {"cls": "UnitGrid", "shape": [8], "periodic": [True]},
     {"cls": "CartesianGrid", "bounds": [[0, 8]], "shape": [8], "periodic": [False]},
     {"cls": "CartesianGrid", "bounds": [[-1, 1]], "shape": [8], "periodic": [False]},
     {"cls": "CartesianGrid", "bounds": [[-2, 1]], "shape": [8], "periodic": [False]},
     {"cls": "CartesianGrid", "bounds": [[0, 2]], "shape": [8], "periodic": [False]},
     {"cls": "CartesianGrid", "bounds": [[-1, 1]], "shape": [8], "periodic": [True]},
     {"cls": "PolarSymGrid", "radius": 8, "shape": [8]},
     {"cls": "PolarSymGrid", "radius": [1, 9], "shape": [8]},
     {"cls": "SphericalSymGrid", "radius": 8, "shape": [8]},
     {"cls": "SphericalSymGrid", "radius": [1, 9], "shape": [8]}],
    # 2-d
    [{"cls": "UnitGrid", "shape": [4, 4], "periodic": [False, False]},
     {"cls": "UnitGrid", "shape": [4, 4], "periodic": [True, False]},
     {"cls": "UnitGrid", "shape": [4, 4], "periodic": [False, True]},
     {"cls": "CartesianGrid", "bounds": [[0, 4], [0, 4]], "shape": [4, 4], "periodic": [False, False]},
     {"cls": "CartesianGrid", "bounds": [[-1, 1], [0, 1]], "shape": [4, 4], "periodic": [False, False]},
     {"cls": "CartesianGrid", "bounds": [[-2, 1], [0, 1]], "shape": [4, 4], "periodic": [False, False]},
     {"cls": "CartesianGrid", "bounds": [[0, 1], [-1, 1]], "shape": [4, 4], "periodic": [False, False]},
     {"cls": "CartesianGrid", "bounds": [[0, 1], [-2, 1]], "shape": [4, 4], "periodic": [False, False]},
     {"cls": "CylindricalSymGrid", "radius": 2, "bounds_z": [-1, 1], "shape": [4, 4], "periodic": [False, False]},
     {"cls": "CylindricalSymGrid", "radius": 2, "bounds_z": [-2, 1], "shape": [4, 4], "periodic": [False, False]},
     {"cls": "CylindricalSymGrid", "radius": 2, "bounds_z": [-1, 1], "shape": [4, 4], "periodic": [False, True]},
     {"cls": "CylindricalSymGrid", "radius": [1, 2], "bounds_z": [-1, 1], "shape": [4, 4], "periodic": [False, False]}],
]

BC_KINDS = [
    "auto_periodic_neumann", "auto_periodic_dirichlet",
    {"value": 0}, {"derivative": 0}, {"curvature": 0}, {"value": 1}, {"derivative": 1}, {"curvature": 1},
    {"type": "mixed", "value": 0, "const": 0}, {"type": "mixed", "value": 1, "const": 2},
    {"value": -1}, {"value": -2}, {"derivative": -1}, {"derivative": -2},
    {"low": {"value": 0}, "high": {"derivative": 0}}, {"low": {"derivative": 0}, "high": {"value": 0}},
    {"low": {"value": 1}, "high": {"value": 2}}, {"value_expression": "1.5"}, {"derivative_expression": "0.5"},
    {"value_expression": "1 + t"}, {"value_expression": "2 + t"}, {"derivative_expression": "t"},
    {"value_expression": "1 + COORD"}, {"value_expression": "2 * COORD"}, {"derivative_expression": "COORD"},
    # anti-periodic instead of periodic on the periodic axes
    {"value": 0, "_anti": True}, {"derivative": 0, "_anti": True},
    # boundary values given as functions: closures made by one factory, differing in a captured number only
    {"_callable": 1.0}, {"_callable": 2.0}, {"_callable": -1.0},
    # Robin conditions that agree in everything but the constant
    {"type": "mixed", "value": 1, "const": 0}, {"type": "mixed", "value": 1, "const": 3},
]

OPS_BY_RANK = {0: ["laplace", "gradient", "gradient_squared"], 1: ["divergence", "vector_gradient", "vector_laplace"],
               2: ["tensor_divergence"]}

EQ_POOL = [
    lambda r: {"cls": "DiffusionPDE", "diffusivity": r.choice([1, 0.5, -1, -2]) if r.random() < 0.3 else r.choice([1, 0.5, 2]), "bc": _bc(r)},
    lambda r: {"cls": "AllenCahnPDE", "interface_width": r.choice([1, 2]), "mobility": r.choice([1, 0.5]), "bc": _bc(r)},
    lambda r: {"cls": "CahnHilliardPDE", "interface_width": r.choice([1, 2]), "bc_c": _bc(r), "bc_mu": _bc(r)},
    lambda r: {"cls": "KPZInterfacePDE", "nu": r.choice([0.5, 1]), "lmbda": r.choice([1, 2, -1, -2]), "bc": _bc(r)},
    lambda r: {"cls": "WavePDE", "speed": r.choice([1, 2]), "bc": _bc(r)},
    lambda r: {"cls": "PDE", "rhs": {"c": r.choice(["laplace(c) + k*c", "laplace(c) - k*c**2", "k*laplace(c**2)", "laplace(c) + k"])},
               "consts": {"k": r.choice([0.5, 1, -1, -2])}, "bc": _bc(r)},
    lambda r: {"cls": "PDE", "rhs": {"c": "laplace(c) + gradient_squared(c)"}, "bc": _bc(r),
               "bc_ops": {"c:gradient_squared": _bc(r)}},
    lambda r: {"cls": "PDE", "rhs": [["u", "laplace(c) + k"], ["c", "laplace(u) - u"]], "consts": {"k": r.choice([0, 1])}, "bc": _bc(r)},
    # rank-agnostic right-hand sides: the same equation object may meet collections whose members have other ranks
    lambda r: {"cls": "PDE", "rhs": [["b", "-k * b"], ["a", "-2 * a"]], "consts": {"k": r.choice([1, 0.5])}, "bc": _bc(r), "any_rank": True},
    lambda r: {"cls": "PDE", "rhs": {"a": "-a + k"}, "consts": {"k": r.choice([0, 1])}, "bc": _bc(r), "any_rank": True},
    # equations that use a helper function from the user's (one, shared) dictionary of functions
    lambda r: {"cls": "PDE", "rhs": {"c": "laplace(c) + double(c)"}, "bc": _bc(r), "user_funcs": True},
    lambda r: {"cls": "PDE", "rhs": {"c": "laplace(double(c)) - c"}, "bc": _bc(r), "user_funcs": True},
]


def _bc(r):
    # biased towards the small homogeneous kinds that coincide in every attribute but their class
    x = r.random()
    if x < 0.5:
        return r.choice(BC_KINDS[:8])
    if x < 0.62:
        return r.choice(BC_KINDS[-7:])  # siblings: anti-periodic, function values, Robin constants
    return r.choice(BC_KINDS)


def gen_plan(rng, tier, idx):
    fam = GRID_FAMILIES[0] if rng.random() < 0.55 else GRID_FAMILIES[1]
    # pick 2-4 grids, biased to near duplicates
    ng = rng.choice([2, 2, 3, 3, 4])
    first = rng.randrange(len(fam))
    gsel = [first]
    while len(gsel) < ng:
        if rng.random() < 0.35:
            gsel.append(rng.choice(gsel))  # a second, distinct grid object with the same spec
        else:
            cand = [i for i in range(len(fam)) if fam[i]["cls"] == fam[first]["cls"]] if rng.random() < 0.6 else list(range(len(fam)))
            gsel.append(rng.choice(cand))
    grids = {f"g{i}": copy.deepcopy(fam[j]) for i, j in enumerate(gsel)}
    fields = {}
    nfld = rng.randint(2, 5)
    for i in range(nfld):
        gid = rng.choice(sorted(grids))
        gcls = grids[gid]["cls"]
        rank = rng.choice([0, 0, 0, 0, 1, 2])
        if gcls == "SphericalSymGrid":
            rank = 0  # vector/tensor operators assert purely radial input there
        fields[f"f{i}"] = {"grid": gid, "rank": rank, "dtype": "complex" if rng.random() < 0.12 else "float",
                           "seed": rng.randrange(1 << 30)}
    eqs = {f"e{i}": rng.choice(EQ_POOL)(rng) for i in range(rng.randint(1, 3))}
    header = {"grids": grids, "fields": fields, "eqs": eqs,
              "config": {"backend.numba.multithreading": "never"} if rng.random() < 0.2 else {}}
    nops = rng.randint(4, 25 if tier == "quick" else 40)
    ops = []
    fids = sorted(fields)
    ncoll = 0
    for _ in range(nops):
        r = rng.random()
        f = rng.choice(fids)
        fs = fields[f]
        if r < 0.34:
            via = rng.choice(["apply", "method", "make_operator", "make_operator", "make_operator_out", "apply_out"])
            backend = "scipy" if rng.random() < 0.12 and grids[fs["grid"]]["cls"] in ("UnitGrid", "CartesianGrid") else "numba"
            name = rng.choice(OPS_BY_RANK[fs["rank"]])
            kwargs = {}
            if name == "laplace" and grids[fs["grid"]]["cls"] in ("SphericalSymGrid",) and rng.random() < 0.3:
                kwargs = {"conservative": rng.random() < 0.5}
            ops.append({"op": "operator", "f": f, "name": name, "bc": _bc(rng), "backend": backend, "via": via, "kwargs": kwargs,
                        "t": rng.choice([0.0, 0.5, 1.0])})
        elif r < 0.46:
            ops.append({"op": "interp", "f": f, "pts_seed": rng.randrange(1 << 30), "n": rng.randint(1, 4),
                        "bc": _bc(rng) if rng.random() < 0.4 else None, "fill": rng.choice([None, 0.0, -1.0, -2.0, -1, -2]),
                        "via": rng.choice(["interpolate", "interpolate", "make_interpolator"])})
        elif r < 0.50:
            ops.append({"op": "interp_grid", "f": f, "g2": rng.choice(sorted(grids)), "bc": _bc(rng) if rng.random() < 0.5 else None,
                        "fill": rng.choice([0.0, 0.0, -1.0, -2.0])})
        elif r < 0.58:
            k = rng.randint(1, 3)
            if any(e.get("any_rank") for e in eqs.values()) and rng.random() < 0.6:
                k = 2
            members = [rng.choice(fids) for _ in range(k)]
            ops.append({"op": "collect", "cid": f"c{ncoll % 3}", "fids": members, "copy_fields": rng.random() < 0.3})
            ncoll += 1
        elif r < 0.68:
            tgt = f if rng.random() < 0.8 or ncoll == 0 else f"c{rng.randrange(min(ncoll, 3))}"
            ops.append({"op": "write", "target": tgt, "mode": rng.choice(["assign", "inplace", "iadd", "scale"]),
                        "seed": rng.randrange(1 << 30)})
        elif r < 0.80:
            state = f if rng.random() < 0.7 or ncoll == 0 else f"c{rng.randrange(min(ncoll, 3))}"
            ops.append({"op": "rate", "eq": rng.choice(sorted(eqs)), "state": state, "t": rng.choice([0.0, 1.0, 0.5]),
                        "via": rng.choice(["evolution_rate", "make_pde_rhs"]), "backend": rng.choice(["numpy", "numba"])})
        elif r < 0.88:
            state = f if rng.random() < 0.7 or ncoll == 0 else f"c{rng.randrange(min(ncoll, 3))}"
            solver = rng.choice(["euler", "euler", "runge-kutta", "implicit", "adams-bashforth", "crank-nicolson"])
            ops.append({"op": "solve", "eq": rng.choice(sorted(eqs)), "state": state, "steps": rng.randint(1, 3), "dt": 1e-4,
                        "solver": solver, "backend": rng.choice(["numpy", "numba"]),
                        "kw": {"adaptive": True, "tolerance": 1e-3} if solver in ("euler", "runge-kutta") and rng.random() < 0.25 else {}})
        elif r < 0.90:
            ops.append({"op": "poisson", "f": f, "bc": rng.choice([{"value": 0}, {"value": 1}, {"low": {"value": 0}, "high": {"derivative": 0}},
                                                                   {"low": {"derivative": 0}, "high": {"value": 0}}])})
        elif r < 0.915:
            ops.append({"op": "insert", "f": f, "pts_seed": rng.randrange(1 << 30)})
        elif r < 0.93:
            ops.append({"op": "measure", "f": f})
        elif r < 0.95:
            ops.append({"op": "bvals", "f": f, "axis": rng.randrange(2), "upper": rng.random() < 0.5, "bc": _bc(rng)})
        elif r < 0.96:
            ops.append({"op": "from_expr", "g": rng.choice(sorted(grids)), "expr": rng.choice(["1 + 0*%s", "%s**2", "sin(%s)"])})
        else:
            ev = rng.choice(["gc", "poison", "clear_cache", "drop"])
            ops.append({"op": ev, "target": rng.choice(["backend:numba", "backend:scipy", f, fs["grid"], rng.choice(sorted(eqs))])})
    # motif: one rank-agnostic equation object meets two collections on the same grid that have the same total number of
    # components but members of other ranks (e.g. [scalar, vector] and then [vector, scalar])
    two = [e for e, es in eqs.items() if es.get("any_rank") and len(es["rhs"]) == 2]
    if two and rng.random() < 0.7:
        gid = rng.choice(sorted(grids))
        if grids[gid]["cls"] != "SphericalSymGrid":
            n0 = len(fields)
            fields[f"f{n0}"] = {"grid": gid, "rank": 0, "dtype": "float", "seed": rng.randrange(1 << 30)}
            fields[f"f{n0 + 1}"] = {"grid": gid, "rank": 1, "dtype": "float", "seed": rng.randrange(1 << 30)}
            fields[f"f{n0 + 2}"] = {"grid": gid, "rank": 0, "dtype": "float", "seed": rng.randrange(1 << 30)}
            fields[f"f{n0 + 3}"] = {"grid": gid, "rank": 1, "dtype": "float", "seed": rng.randrange(1 << 30)}
            eid = rng.choice(two)
            via = lambda: rng.choice(["evolution_rate", "make_pde_rhs"])  # noqa: E731
            motif = [{"op": "collect", "cid": "c3", "fids": [f"f{n0}", f"f{n0 + 1}"], "copy_fields": False},
                     {"op": "rate", "eq": eid, "state": "c3", "t": 0.0, "via": via(), "backend": rng.choice(["numpy", "numba"])},
                     {"op": "collect", "cid": "c4", "fids": [f"f{n0 + 3}", f"f{n0 + 2}"], "copy_fields": False},
                     {"op": "rate", "eq": eid, "state": "c4", "t": 0.0, "via": via(), "backend": rng.choice(["numpy", "numba"])}]
            if rng.random() < 0.5:
                motif = motif[2:] + motif[:2]
            pos = rng.randint(0, len(ops))
            ops[pos:pos] = motif
    # motif: boundary values linked to user-owned arrays (bc.link_value): two arrays with equal contents are linked to two
    # conditions on the same grid, one array is changed in place, and the operators are requested again
    if rng.random() < 0.15:
        cand = [fid for fid, fsp in fields.items() if fsp["rank"] == 0 and fsp["dtype"] == "float"]
        if cand:
            fid = rng.choice(cand)
            name = rng.choice(["laplace", "laplace", "gradient", "gradient_squared"])
            keep = rng.random() < 0.7  # the same conditions object for every use of a slot, or new conditions each time

            def lop(slot):
                return {"op": "linked_op", "f": fid, "name": name, "slot": slot, "backend": rng.choice(["numba", "numba", "scipy"]),
                        "via": rng.choice(["make_operator", "make_operator", "ghost"]), "keep": keep}

            motif = [lop(0), lop(1), {"op": "set_linked", "slot": rng.randrange(2), "value": rng.choice([5.0, -2.0, 0.0])}, lop(1), lop(0)]
            if rng.random() < 0.3:
                motif.insert(3, {"op": "set_linked", "slot": rng.randrange(2), "value": 3.0})
            pos = rng.randint(0, len(ops))
            ops[pos:pos] = motif
    # motif: ONE equation object whose conditions are given by name meets two grids that differ in nothing but ONE
    # attribute: the periodicity of an axis (same class, shape and bounds), or a bound that differs by a few parts per
    # million, or bounds that are both tiny in absolute terms (nanometre boxes in SI units)
    if rng.random() < 0.3:
        how = rng.choice(["periodic", "periodic", "near", "tiny"])
        if how == "periodic":
            cand = [g for g in grids.values() if "periodic" in g and g["cls"] in ("UnitGrid", "CartesianGrid", "CylindricalSymGrid")]
        else:
            cand = [g for g in grids.values() if g["cls"] in ("CartesianGrid", "PolarSymGrid", "SphericalSymGrid")]
        if cand:
            ga = copy.deepcopy(rng.choice(cand))
            gb = copy.deepcopy(ga)
            if how == "periodic":
                ax = len(gb["periodic"]) - 1 if gb["cls"] == "CylindricalSymGrid" else rng.randrange(len(gb["periodic"]))
                gb["periodic"][ax] = not gb["periodic"][ax]
            else:
                eps = rng.choice([3e-6, 1e-7, 4e-9])
                if ga["cls"] == "CartesianGrid":
                    ax = rng.randrange(len(ga["bounds"]))
                    if how == "tiny":
                        ga["bounds"] = [[0, 4e-9] for _ in ga["bounds"]]
                        gb["bounds"] = [[0, 4e-9] for _ in gb["bounds"]]
                        gb["bounds"][ax] = [0, 8e-9]
                    else:
                        lo, hi = gb["bounds"][ax]
                        gb["bounds"][ax] = [lo, hi + (hi - lo) * eps]
                else:
                    r = ga["radius"]
                    if how == "tiny":
                        ga["radius"], gb["radius"] = 4e-9, 8e-9
                    elif isinstance(r, list):
                        gb["radius"] = [r[0], r[1] * (1 + eps)]
                    else:
                        gb["radius"] = r * (1 + eps)
            na, nf, ne = len(grids), len(fields), len(eqs)
            grids[f"g{na}"], grids[f"g{na + 1}"] = ga, gb
            fields[f"f{nf}"] = {"grid": f"g{na}", "rank": 0, "dtype": "float", "seed": rng.randrange(1 << 30)}
            fields[f"f{nf + 1}"] = {"grid": f"g{na + 1}", "rank": 0, "dtype": "float", "seed": rng.randrange(1 << 30)}
            auto = rng.choice(["auto_periodic_neumann", "auto_periodic_dirichlet"])
            eqs[f"e{ne}"] = rng.choice([{"cls": "DiffusionPDE", "diffusivity": 1, "bc": auto},
                                        {"cls": "PDE", "rhs": {"c": "laplace(c) - c"}, "consts": {}, "bc": auto},
                                        {"cls": "PDE", "rhs": {"c": "laplace(c)"}, "consts": {}, "bc": auto},
                                        {"cls": "PDE", "rhs": {"c": "k * laplace(c) + c"}, "consts": {"k": 2}, "bc": auto},
                                        {"cls": "AllenCahnPDE", "interface_width": 1, "mobility": 1, "bc": auto}])
            # (only the PDE class keeps prepared functions between calls, one set per backend: mostly the same backend twice)
            be_common = rng.choice(["numpy", "numba"])

            def use(fid):
                be = be_common if rng.random() < 0.75 else rng.choice(["numpy", "numba"])
                if rng.random() < 0.6:
                    return {"op": "rate", "eq": f"e{ne}", "state": fid, "t": 0.0, "via": rng.choice(["evolution_rate", "make_pde_rhs"]),
                            "backend": be}
                return {"op": "solve", "eq": f"e{ne}", "state": fid, "steps": 1, "dt": 1e-4, "solver": "euler",
                        "backend": be, "kw": {}}

            motif = [use(f"f{nf}"), use(f"f{nf + 1}")]
            if rng.random() < 0.5:
                motif.reverse()
            pos = rng.randint(0, len(ops))
            ops[pos:pos] = motif
    return {"engine": "history-sim", "header": header, "ops": ops}


# ======================================================================================
# execution
# ======================================================================================


def _close(a, b, rtol=1e-9):
    """Structural, tolerant equality of two plain results."""
    if isinstance(a, (list, tuple)) and isinstance(b, (list, tuple)):
        return len(a) == len(b) and all(_close(x, y, rtol) for x, y in zip(a, b))
    if isinstance(a, (bool, str, type(None))) or isinstance(b, (bool, str, type(None))):
        return a == b
    try:
        x, y = np.asarray(a), np.asarray(b)
        if x.shape != y.shape:
            return False
        if x.dtype.kind in "OUS" or y.dtype.kind in "OUS":
            return bool(np.all(x == y))
        scale = float(np.nanmax(np.abs(y))) if y.size else 0.0
        if not np.isfinite(scale):
            scale = 0.0
        # floor of the scale: results may cancel to zero while the summed terms (field values of order one times up to
        # 1/dx**2 = 64) do not; a wrong cache entry produces errors of order one
        return bool(np.allclose(x, y, rtol=rtol, atol=1e-11 * max(scale, 100.0), equal_nan=True))
    except Exception:  # noqa: BLE001
        return a == b


def _short(v, n=6):
    try:
        a = np.asarray(v if not isinstance(v, (list, tuple)) else v[0])
        return np.array2string(a.ravel()[:n], precision=6)
    except Exception:  # noqa: BLE001
        return repr(v)[:80]


def _spec_key(plan, op):
    """What the op asks for, as a reader would describe it (for violation keys)."""
    h = plan["header"]
    if op["op"] == "operator":
        g = h["grids"][h["fields"][op["f"]]["grid"]]
        return f"operator/{op['via']}/{op['backend']}"
    return op["op"] + ("/" + op.get("via", "") if op.get("via") else "")


def execute(plan):
    import pde

    log = EventLog()
    log.add("plan", digest_of(plan))
    stats = {"faults": {}, "probes": {}}
    viol = None
    header = plan["header"]
    ho._apply_config(header.get("config") or {})
    L = ho.Live(header)
    L.colls_grid = {}
    client = _CLIENT["client"]
    compared = 0
    seen_gspec, seen_opgrid, eq_states = {}, {}, {}
    relinked = set()
    linked_members = {}  # cid -> field ids whose data is linked to this collection's array
    poison_keep = []

    def bump(group, name, n=1):
        stats[group][name] = stats[group].get(name, 0) + n

    for k, op in enumerate(plan["ops"]):
        kind = op["op"]
        # ------------------------------------------------ history-only operations
        if kind == "collect":
            members = []
            gid0 = None
            ok = True
            for fid in op["fids"]:
                if fid not in header["fields"]:
                    ok = False
                    break
                gid = header["fields"][fid]["grid"]
                if gid0 is None:
                    gid0 = gid
                elif header["grids"][gid] != header["grids"][gid0]:
                    ok = False
                    break
                members.append(L.field(fid))
            if not ok or not members:
                log.add(k, kind, "skip")
                continue
            if len({header["fields"][f]["dtype"] for f in op["fids"]}) > 1:
                log.add(k, kind, "skip-mixed-dtype")
                continue
            try:
                L.colls[op["cid"]] = pde.FieldCollection(members, copy_fields=bool(op["copy_fields"]))
                L.colls_grid[op["cid"]] = gid0
                links = not op["copy_fields"] and len(set(op["fids"])) == len(op["fids"])  # identical fields force a copy
                if links:
                    # "it is basically impossible to have fields that are linked to multiple collections at the same
                    # time" (documented): a collection whose member was taken over by this one is no longer usable
                    for other, fids in list(linked_members.items()):
                        if other != op["cid"] and set(fids) & set(op["fids"]):
                            L.colls.pop(other, None)
                            L.colls_grid.pop(other, None)
                            linked_members.pop(other, None)
                            bump("probes", "collection_dropped_after_member_relinked")
                    linked_members[op["cid"]] = list(op["fids"])
                else:
                    linked_members.pop(op["cid"], None)
                if not op["copy_fields"]:
                    relinked.update(op["fids"])
                log.add(k, kind, "ok", op["cid"], op["fids"], op["copy_fields"])
            except Exception as err:  # noqa: BLE001
                log.add(k, kind, "exc", type(err).__name__)
            continue
        if kind == "write":
            tgt = op["target"]
            obj = L.coll(tgt) if tgt.startswith("c") else (L.field(tgt) if tgt in header["fields"] else None)
            if obj is None:
                log.add(k, kind, "skip")
                continue
            rng = np.random.default_rng(op["seed"])
            new = rng.uniform(0.5, 1.5, size=obj.data.shape)
            if np.iscomplexobj(obj.data):
                new = new + 1j * rng.uniform(-0.5, 0.5, size=obj.data.shape)
            if op["mode"] == "assign":
                obj.data = new
            elif op["mode"] == "inplace":
                obj.data[...] = new
            elif op["mode"] == "iadd":
                obj += 0.25
            else:
                obj *= 1.5
            log.add(k, kind, "ok", tgt, op["mode"])
            continue
        if kind == "set_linked":
            # the user changes, in place, the arrays of one slot that boundary values are linked to
            for key, arr in getattr(L, "linked", {}).items():
                if key[0] == int(op["slot"]):
                    arr[...] = float(op["value"])
            bump("probes", "linked_array_changed_in_place")
            log.add(k, kind, op["slot"], op["value"])
            continue
        if kind in ("gc", "poison", "clear_cache", "drop"):
            tgt = op.get("target", "")
            if kind == "gc":
                gc.collect()
            elif kind == "poison":
                # re-use memory that a cached helper may still point to: allocate blocks of the sizes in use
                gc.collect()
                for f in list(L.fields.values()):
                    for _ in range(3):
                        block = np.full(f._data_full.shape, 1e300, dtype=f._data_full.dtype)
                        poison_keep.append(block)
            elif kind == "clear_cache":
                # legal at any time: a cache miss must not change a result
                from pde.backends import get_backend

                if tgt.startswith("backend:"):
                    get_backend(tgt.split(":")[1])._cache_methods = {}
                elif tgt in L.fields:
                    L.fields[tgt]._cache_methods = {}
                elif tgt in L.grids:
                    L.grids[tgt]._cache_methods = {}
                else:
                    for key, eq in L.eqs.items():
                        if key.split(":")[0] == tgt:
                            eq._cache = {}
            elif kind == "drop":
                if tgt in L.fields and tgt not in relinked:
                    del L.fields[tgt]
                else:
                    for key in [k2 for k2 in L.eqs if k2.split(":")[0] == tgt]:
                        del L.eqs[key]
                gc.collect()
            bump("faults", kind)
            log.add(k, kind, tgt)
            continue
        # ------------------------------------------------ compared operations
        ids = [i for i in ho.ids_of(op)]
        if any(i.startswith("f") and i not in header["fields"] for i in ids) or \
                (op.get("eq") is not None and op["eq"] not in header["eqs"]) or \
                (op.get("g2") is not None and op["g2"] not in header["grids"]) or \
                (op.get("g") is not None and op["g"] not in header["grids"]):
            log.add(k, kind, "skip-missing")
            continue
        if kind == "from_expr":
            g = header["grids"][op["g"]]
            op = dict(op, expr=op["expr"] % ho.AXES[g["cls"]][0] if "%s" in op["expr"] else op["expr"])
        snap = L.snapshot(ids)
        got = ho.perform(op, L)
        if got.get("skip"):
            log.add(k, kind, "skip")
            continue
        ref = client.call({"header": header, "snap": snap, "op": op})
        if "harness_error" in ref:
            raise RuntimeError("reference child failed: " + ref["harness_error"])
        if ref.get("skip"):
            raise RuntimeError(f"op {k} skipped in the reference but not in the history")
        compared += 1
        # reach probes
        if kind == "operator":
            fs = header["fields"][op["f"]]
            gkey = digest_of(header["grids"][fs["grid"]])
            key = (gkey, op["name"], op["backend"])
            prev = seen_opgrid.setdefault(key, set())
            if prev and digest_of(op["bc"]) not in prev:
                bump("probes", "bc_kind_varied_same_grid_op")
            prev.add(digest_of(op["bc"]))
            gids = seen_gspec.setdefault(gkey, set())
            gids.add(fs["grid"])
            if len(gids) >= 2:
                bump("probes", "same_spec_distinct_grids")
        if kind in ("rate", "solve"):
            st = eq_states.setdefault(op["eq"], set())
            if st and op["state"] not in st:
                bump("probes", "eq_reused_on_second_state")
            st.add(op["state"])
        if kind == "interp" and op["f"] in relinked:
            bump("probes", "interp_after_relink")
        # verdict
        if "exc" in got or "exc" in ref:
            same = got.get("exc") == ref.get("exc")
            log.add(k, kind, "exc", got.get("exc"), ref.get("exc"))
            if same:
                bump("probes", "exceptions_agreed")
            elif viol is None:
                viol = violation(
                    "C04/history-dependent-exception",
                    f"op #{k} {op}: history process -> {got.get('exc') or 'a value'} ({got.get('msg', '')}), pristine interpreter -> "
                    f"{ref.get('exc') or 'a value'} ({ref.get('msg', '')})",
                    key="C04/exception/" + _spec_key(plan, op))
            continue
        ok = _close(got["val"], ref["val"])
        log.add(k, kind, "ok" if ok else "MISMATCH", np.shape(got["val"]) if not isinstance(got["val"], list) else len(got["val"]))
        if not ok and viol is None:
            viol = violation(
                "C04/history-dependent-result",
                f"op #{k} {op} returned {_short(got['val'])} in the history process but {_short(ref['val'])} in a pristine interpreter "
                f"given the same current field contents (grids {header['grids']})",
                key="C04/result/" + _spec_key(plan, op))
    bump("probes", "compared_ops", compared)
    nontrivial = compared >= 2
    log.add("verdict", viol["class"] if viol else None)
    return {"violation": viol, "digest": log.digest(), "stats": stats, "nontrivial": nontrivial,
            "sig": digest_of([header["grids"], header["fields"], header["eqs"], plan["ops"]]),
            "sched_steps": len(plan["ops"]), "events_head": log.head[:60]}


def shrink_lists(plan):
    return ["ops"]


def simplify(plan):
    # drop unused pool entries, then simpler arguments
    used = set()
    for op in plan["ops"]:
        used.update(ho.ids_of(op))
        for k in ("eq", "g", "g2", "target"):
            if isinstance(op.get(k), str):
                used.add(op[k])
    for f in list(plan["header"]["fields"]):
        if f in used:
            used.add(plan["header"]["fields"][f]["grid"])
    for pool in ("fields", "eqs", "grids"):
        for key in list(plan["header"][pool]):
            if key not in used:
                p = copy.deepcopy(plan)
                del p["header"][pool][key]
                yield p
    if plan["header"].get("config"):
        p = copy.deepcopy(plan)
        p["header"]["config"] = {}
        yield p
    for i, op in enumerate(plan["ops"]):
        if op["op"] == "operator":
            if op["via"] != "make_operator":
                p = copy.deepcopy(plan)
                p["ops"][i]["via"] = "make_operator"
                yield p
            if op.get("kwargs"):
                p = copy.deepcopy(plan)
                p["ops"][i]["kwargs"] = {}
                yield p
        if op["op"] == "interp":
            for key, val in (("n", 1), ("fill", None), ("via", "interpolate")):
                if op.get(key) != val:
                    p = copy.deepcopy(plan)
                    p["ops"][i][key] = val
                    yield p
        if op["op"] == "solve":
            for key, val in (("steps", 1), ("solver", "euler"), ("backend", "numpy")):
                if op.get(key) != val:
                    p = copy.deepcopy(plan)
                    p["ops"][i][key] = val
                    yield p
    for fid, fs in plan["header"]["fields"].items():
        if fs["dtype"] != "float":
            p = copy.deepcopy(plan)
            p["header"]["fields"][fid]["dtype"] = "float"
            yield p
        if fs["rank"] != 0:
            p = copy.deepcopy(plan)
            p["header"]["fields"][fid]["rank"] = 0
            yield p


def post_batch(tier, seed, agg):
    """Thorough tier: a sample of the same histories with real numba compilation (history process and reference)."""
    if tier != "thorough" and not os.environ.get("VERIF_JIT"):
        return None
    import sys

    from sim.core import jit_sample

    return jit_sample(sys.modules[__name__], seed, runs=32, budget_s=900, timeout_s=1500)
